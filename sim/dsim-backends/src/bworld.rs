//! Backend world (C15): one pool of one SyncWrapper backend (deadpool-sqlite, deadpool-r2d2,
//! deadpool-diesel) driven by scripted clients. The blocking thread pool is simulated: every
//! creation, interact closure, validity check run by `Manager::recycle` and every connection
//! destructor is a worker actor that the seeded controller may delay, overtake and interleave.
//!
//! Ground truth is the ledger in this file (never the pool's own counters): which connection
//! identities exist, which of them are dead (closure panicked on it / backend reports it broken /
//! validity check failed) and since when.

use std::{
    cell::RefCell,
    collections::BTreeMap,
    panic::{catch_unwind, AssertUnwindSafe},
    sync::TryLockError,
    time::Duration,
};

use deadpool::managed::{self, Object, Pool, PoolError, TimeoutType, Timeouts};
use deadpool_sync::{InteractError, SyncWrapper};
use serde::{Deserialize, Serialize};
use simcore::common::{Harness, Outcome as RunOutcome};
use simcore::rng::Rng;

use crate::engine::{
    self, begin_run, current_actor, drive, end_run, op_boundary, Decision, DriveStats,
    InjectedPanic, Knobs, PollEnd, Resume, RunEnd, Sim, SimInfo, Violation, World, Yield,
    CONTROLLER, SITES, SITES_IN_LOCK,
};
use crate::trace;

pub const PROP: &str = "C15";
pub const STACK: usize = 2 * 1024 * 1024;

// ---------------------------------------------------------------------------
// scenario
// ---------------------------------------------------------------------------

#[derive(Clone, Copy, Debug, Serialize, Deserialize, PartialEq, Eq)]
pub enum DMethod {
    Fast,
    Verified,
    /// `SELECT 1 FROM verif_alive` (fails once a closure dropped that table)
    CustomQuery,
    /// harness callback; n-th call fails according to `valid_err_calls`
    CustomFunction,
}

#[derive(Clone, Copy, Debug, Serialize, Deserialize, PartialEq, Eq)]
pub enum Backend {
    Sqlite,
    R2d2,
    Diesel { method: DMethod },
}

#[derive(Clone, Copy, Debug, Serialize, Deserialize, PartialEq, Eq)]
pub enum IKind {
    Ok,
    /// the closure panics (poisons the wrapper's mutex)
    Panic,
    /// diesel: leaves an open (non-test) transaction behind
    LeaveTx,
    /// diesel: `begin_test_transaction` (explicitly *not* broken)
    TestTx,
    /// r2d2: flips the scripted connection's broken flag
    MarkBroken,
    /// diesel/CustomQuery: drops the table the validity query selects from;
    /// sqlite: forbids bound parameters on the connection, so that the manager's `SELECT $1` fails;
    /// r2d2: the scripted connection fails `is_valid` from now on (while `has_broken` stays false)
    Invalidate,
    /// diesel: a failed rollback leaves the transaction manager in its error state
    TxError,
}

#[derive(Clone, Copy, Debug, Serialize, Deserialize, PartialEq, Eq)]
pub enum BOp {
    /// `pool.get()`, identify the connection, hold it
    Get { cancellable: bool },
    /// drop the `h % held`-th held object (returns it to the pool)
    Return { h: u8 },
    Interact { h: u8, kind: IKind, cancellable: bool },
    /// `Object::take` and drop the bare wrapper
    Take { h: u8 },
    Status,
    /// `SyncWrapper::lock()` on a held connection (only while no closure is using it: it blocks)
    Lock { h: u8 },
    Nop,
}

#[derive(Clone, Debug, Serialize, Deserialize, PartialEq, Eq)]
pub struct BScenario {
    pub profile: String,
    pub backend: Backend,
    pub max_size: usize,
    pub lifo: bool,
    pub clients: Vec<Vec<BOp>>,
    /// r2d2: indices of `connect` calls that fail
    pub connect_fail_calls: Vec<u32>,
    /// r2d2 `is_valid` / diesel CustomFunction: indices of calls that report an error
    pub valid_err_calls: Vec<u32>,
    /// diesel CustomFunction: indices of calls of the callback that panic
    #[serde(default)]
    pub valid_panic_calls: Vec<u32>,
    /// r2d2: indices of `has_broken` calls that report `true` although no closure marked the connection
    pub broken_true_calls: Vec<u32>,
    pub knobs: Knobs,
    pub sched_seed: u64,
}

// ---------------------------------------------------------------------------
// ledger
// ---------------------------------------------------------------------------

#[derive(Clone, Debug, Default)]
#[allow(dead_code)]
pub struct ConnRec {
    pub created_seq: u64,
    /// get during which the connection was first seen
    pub first_get: Option<u32>,
    pub poisoned_since: Option<u64>,
    /// dead through something a closure did (judged against the invocation time of a get)
    pub dead_since: Option<u64>,
    /// simulation step at which a closure panicked on it (mutex poisoned from then on)
    pub poisoned_step: Option<u64>,
    pub dead_cause: &'static str,
    /// the backend told the pool's own check that the connection is broken / invalid
    pub reported_dead: Option<u64>,
    pub reported_cause: &'static str,
    pub handouts: u32,
    pub idle: bool,
    pub taken: bool,
    pub tx_open: bool,
    /// diesel: the transaction manager is in its error state (no further transaction can begin)
    pub tx_error: bool,
    pub test_tx: bool,
    pub alive_table: bool,
    pub dtor_count: u32,
    pub dtor_actor: Option<usize>,
}

impl ConnRec {
    fn is_dead(&self) -> bool {
        self.dead_since.is_some() || self.reported_dead.is_some()
    }
}

#[derive(Clone, Debug)]
#[allow(dead_code)]
pub struct IRec {
    pub serial: u32,
    pub kind: IKind,
    pub cancellable: bool,
    pub begin: Option<u64>,
    pub end: Option<u64>,
}

#[derive(Clone, Debug)]
#[allow(dead_code)]
pub struct GetRec {
    pub actor: usize,
    pub t0: u64,
    pub cancellable: bool,
    pub audit: bool,
    pub connect_errs: u32,
    /// idle connections at invocation: (dead, live)
    pub idle_dead: u32,
    pub idle_live: u32,
    /// last step at which a blocking job spawned by this get acquired a connection's mutex
    pub last_lock_step: Option<u64>,
}

#[derive(Clone, Copy, Debug, PartialEq, Eq)]
pub enum Phase {
    Idle,
    InGet(u32),
    InInteract(u32),
    Other,
}

#[derive(Clone, Copy, Debug, PartialEq, Eq)]
pub enum Origin {
    Get(u32),
    Interact(u32),
    Other,
}

pub struct BWorld {
    pub sc: BScenario,
    pub n_clients: usize,
    pub auditor: Option<usize>,
    pub conns: BTreeMap<u32, ConnRec>,
    pub next_serial: u32,
    pub seq: u64,
    pub interacts: Vec<IRec>,
    pub gets: Vec<GetRec>,
    pub phase: BTreeMap<usize, Phase>,
    pub worker_origin: BTreeMap<usize, Origin>,
    pub site_log_pos: usize,
    pub last_run: usize,
    pub last_poison_seq: Option<u64>,
    pub draining: bool,
    pub stuck: bool,
    pub audit_mode: bool,
    pub audit_done: bool,
    pub pending_violation: Option<Violation>,
    pub faults: BTreeMap<String, u64>,
    pub probes: BTreeMap<String, u64>,
    pub workers_started: usize,
    pub ops: u64,
    pub connect_calls: u32,
    pub valid_calls: u32,
    pub broken_calls: u32,
    pub overlap: bool,
    pub dead_then_get: bool,
}

thread_local! {
    static BW: RefCell<Option<BWorld>> = const { RefCell::new(None) };
}

pub fn with_w<R>(f: impl FnOnce(&mut BWorld) -> R) -> R {
    engine::no_yield(|| BW.with(|c| f(c.borrow_mut().as_mut().expect("no backend world"))))
}

pub fn try_with_w(f: impl FnOnce(&mut BWorld)) {
    let _ = engine::no_yield(|| {
        BW.try_with(|c| {
            if let Ok(mut b) = c.try_borrow_mut() {
                if let Some(w) = b.as_mut() {
                    f(w)
                }
            }
        })
    });
}

fn name(w: &BWorld, a: usize) -> String {
    if a == CONTROLLER {
        "ctl".into()
    } else if a < w.n_clients {
        format!("client{a}")
    } else if Some(a) == w.auditor {
        "auditor".into()
    } else {
        format!("worker(actor {a})")
    }
}

impl BWorld {
    pub fn probe(&mut self, k: &str) {
        *self.probes.entry(k.to_string()).or_insert(0) += 1;
    }
    pub fn fault(&mut self, k: &str) {
        *self.faults.entry(k.to_string()).or_insert(0) += 1;
    }
    pub fn violate(&mut self, clause: &str, d: String) {
        if self.pending_violation.is_none() {
            trace!("!! {} [{}] {}", PROP, clause, d);
            self.pending_violation = Some(engine::violation(PROP, clause, d));
        }
    }
    pub fn harness_error(&mut self, d: String) {
        if self.pending_violation.as_ref().map(|v| v.property != "HARNESS").unwrap_or(true) {
            self.pending_violation = Some(engine::violation("HARNESS", "model", d));
        }
    }
    pub fn is_worker(&self, a: usize) -> bool {
        a != CONTROLLER && a >= self.n_clients && Some(a) != self.auditor
    }
    pub fn tick(&mut self) -> u64 {
        self.seq += 1;
        self.seq
    }
    pub fn new_conn(&mut self) -> u32 {
        self.next_serial += 1;
        let s = self.next_serial;
        let seq = self.tick();
        let _ = self.conns.insert(s, ConnRec { created_seq: seq, ..Default::default() });
        engine::log_event(&[400, s as u64]);
        s
    }
    /// something a closure did killed the connection
    pub fn mark_dead(&mut self, serial: u32, cause: &'static str) {
        let seq = self.tick();
        if let Some(c) = self.conns.get_mut(&serial) {
            if c.dead_since.is_none() {
                c.dead_since = Some(seq);
                c.dead_cause = cause;
            }
            if cause == "closure_panic" {
                let _ = c.poisoned_since.get_or_insert(seq);
                let _ = c.poisoned_step.get_or_insert(engine::current_step());
            }
        }
        if cause == "closure_panic" {
            self.last_poison_seq = Some(seq);
        }
        engine::log_event(&[401, serial as u64]);
    }
    /// the backend reported the connection as unusable to the pool's own check
    pub fn mark_reported(&mut self, serial: u32, cause: &'static str) {
        let seq = self.tick();
        if let Some(c) = self.conns.get_mut(&serial) {
            if c.reported_dead.is_none() {
                c.reported_dead = Some(seq);
                c.reported_cause = cause;
            }
        }
        engine::log_event(&[402, serial as u64]);
    }
    pub fn origin_of(&self, actor: usize) -> Origin {
        if self.is_worker(actor) {
            self.worker_origin.get(&actor).copied().unwrap_or(Origin::Other)
        } else {
            match self.phase.get(&actor).copied().unwrap_or(Phase::Idle) {
                Phase::InGet(g) => Origin::Get(g),
                Phase::InInteract(i) => Origin::Interact(i),
                _ => Origin::Other,
            }
        }
    }
}

// ---------------------------------------------------------------------------
// backends
// ---------------------------------------------------------------------------

/// What the generic client code needs to know about a backend.
pub trait Bk: 'static {
    type C: Send + 'static;
    type M: managed::Manager<Type = SyncWrapper<Self::C>> + 'static;
    fn build(sc: &BScenario) -> Pool<Self::M>;
    /// Reads the identity marker; a connection without marker gets a fresh serial.
    fn marker(c: &mut Self::C) -> (u32, bool);
    /// Performs the backend specific part of an interact closure.
    fn act(c: &mut Self::C, serial: u32, kind: IKind);
    fn err_text(e: &PoolError<<Self::M as managed::Manager>::Error>) -> String;
}

fn pool_cfg(sc: &BScenario) -> managed::PoolConfig {
    let mut cfg = managed::PoolConfig::new(sc.max_size);
    cfg.queue_mode = if sc.lifo { managed::QueueMode::Lifo } else { managed::QueueMode::Fifo };
    cfg
}

// ---- deadpool-sqlite -------------------------------------------------------

pub struct SqliteB;

impl Bk for SqliteB {
    type C = rusqlite::Connection;
    type M = deadpool_sqlite::Manager;
    fn build(sc: &BScenario) -> Pool<Self::M> {
        let cfg = deadpool_sqlite::Config::new(":memory:");
        let mgr = deadpool_sqlite::Manager::from_config(&cfg, deadpool::Runtime::Tokio1);
        Pool::builder(mgr)
            .config(pool_cfg(sc))
            .runtime(deadpool::Runtime::Tokio1)
            .build()
            .expect("sqlite pool")
    }
    fn marker(c: &mut Self::C) -> (u32, bool) {
        let v: i64 = c
            .pragma_query_value(None, "user_version", |r| r.get(0))
            .expect("harness: read user_version");
        if v != 0 {
            return (v as u32, false);
        }
        let s = with_w(|w| w.new_conn());
        c.pragma_update(None, "user_version", s as i64)
            .expect("harness: write user_version");
        (s, true)
    }
    fn act(c: &mut Self::C, serial: u32, kind: IKind) {
        // touch the database: the closure is given the connection it was promised
        let v: i64 = c
            .pragma_query_value(None, "user_version", |r| r.get(0))
            .expect("harness: read user_version");
        if v as u32 != serial {
            with_w(|w| w.violate("interact_result_faithful", format!("interact on connection #{serial} was given connection #{v}")));
            return;
        }
        if kind == IKind::Invalidate {
            // no statement with a bound parameter can be prepared on this connection any more:
            // the manager's validity query (`SELECT $1`) fails from now on
            // SAFETY: the handle is used for one call while the connection is borrowed mutably.
            let _ = unsafe { rusqlite::ffi::sqlite3_limit(c.handle(), rusqlite::ffi::SQLITE_LIMIT_VARIABLE_NUMBER, 0) };
            with_w(|w| {
                w.fault("validity_query_disabled");
                w.mark_dead(serial, "validity_query_fails");
            });
        }
    }
    fn err_text(e: &PoolError<rusqlite::Error>) -> String {
        format!("{e:?}")
    }
}

// ---- deadpool-r2d2 ---------------------------------------------------------

pub struct ScriptedConn {
    pub serial: u32,
    pub broken: bool,
    /// fails `is_valid` persistently (set by an `Invalidate` interaction)
    pub invalid: bool,
}

impl Drop for ScriptedConn {
    fn drop(&mut self) {
        let serial = self.serial;
        engine::point("harness.dtor");
        try_with_w(|w| {
            let a = current_actor();
            trace!("  ~ScriptedConn#{} on {}", serial, name(w, a));
            engine::log_event(&[410, serial as u64, a as u64]);
            let worker = w.is_worker(a);
            let mut discarded = false;
            let mut pooled = false;
            if let Some(c) = w.conns.get_mut(&serial) {
                c.dtor_count += 1;
                c.dtor_actor = Some(a);
                if c.is_dead() && !c.taken {
                    discarded = true;
                }
                pooled = c.handouts > 0;
                c.idle = false;
            }
            if discarded {
                w.probe("dead_connection_discarded");
            }
            if worker {
                w.probe("destroyed_on_worker");
            } else if pooled {
                let n = name(w, a);
                w.violate("destroyed_off_thread", format!("connection #{serial} was destroyed on {n}, not on a blocking thread"));
            } else {
                // created for a get() that was cancelled before it could wrap the connection: the
                // bare value is dropped together with the abandoned spawn_blocking future
                w.probe("unwrapped_connection_dropped_by_cancelled_get");
            }
        });
    }
}

#[derive(Debug)]
pub struct ScriptErr(pub &'static str);

impl std::fmt::Display for ScriptErr {
    fn fmt(&self, f: &mut std::fmt::Formatter<'_>) -> std::fmt::Result {
        write!(f, "scripted: {}", self.0)
    }
}

impl std::error::Error for ScriptErr {}

#[derive(Debug)]
pub struct ScriptedMgr;

impl r2d2::ManageConnection for ScriptedMgr {
    type Connection = ScriptedConn;
    type Error = ScriptErr;

    fn connect(&self) -> Result<ScriptedConn, ScriptErr> {
        engine::point("harness.closure.begin");
        let a = current_actor();
        let r = with_w(|w| {
            let n = w.connect_calls;
            w.connect_calls += 1;
            if !w.is_worker(a) {
                let nm = name(w, a);
                w.violate("destroyed_off_thread", format!("connect ran on {nm}, not on a blocking thread"));
            }
            if !w.audit_mode && w.sc.connect_fail_calls.contains(&n) {
                w.fault("connect_err");
                if let Origin::Get(g) = w.origin_of(a) {
                    w.gets[g as usize].connect_errs += 1;
                }
                trace!("  connect call #{} fails (scripted)", n);
                None
            } else {
                let s = w.new_conn();
                trace!("  connect call #{} -> connection #{}", n, s);
                Some(s)
            }
        });
        engine::point("harness.closure.end");
        match r {
            Some(serial) => Ok(ScriptedConn { serial, broken: false, invalid: false }),
            None => Err(ScriptErr("connect refused")),
        }
    }

    fn is_valid(&self, conn: &mut ScriptedConn) -> Result<(), ScriptErr> {
        engine::point("harness.closure.mid");
        let serial = conn.serial;
        let invalid = conn.invalid;
        let bad = with_w(|w| {
            let n = w.valid_calls;
            w.valid_calls += 1;
            if invalid {
                w.fault("is_valid_err");
                w.mark_reported(serial, "is_valid_err");
                trace!("  is_valid(#{}) call #{} -> Err (connection invalidated)", serial, n);
                true
            } else if w.sc.valid_err_calls.contains(&n) {
                w.fault("is_valid_err");
                w.mark_reported(serial, "is_valid_err");
                trace!("  is_valid(#{}) call #{} -> Err (scripted)", serial, n);
                true
            } else {
                false
            }
        });
        engine::point("harness.closure.end");
        if bad {
            Err(ScriptErr("connection failed validation"))
        } else {
            Ok(())
        }
    }

    fn has_broken(&self, conn: &mut ScriptedConn) -> bool {
        engine::point("harness.closure.begin");
        let serial = conn.serial;
        let flag = conn.broken;
        with_w(|w| {
            let n = w.broken_calls;
            w.broken_calls += 1;
            if flag {
                w.mark_reported(serial, "has_broken(marked)");
                w.probe("has_broken_saw_mark");
                true
            } else if w.sc.broken_true_calls.contains(&n) {
                w.fault("has_broken_true");
                w.mark_reported(serial, "has_broken_true");
                trace!("  has_broken(#{}) call #{} -> true (scripted)", serial, n);
                true
            } else {
                false
            }
        })
    }
}

pub struct R2d2B;

impl Bk for R2d2B {
    type C = ScriptedConn;
    type M = deadpool_r2d2::Manager<ScriptedMgr>;
    fn build(sc: &BScenario) -> Pool<Self::M> {
        let mgr = deadpool_r2d2::Manager::new(ScriptedMgr, deadpool::Runtime::Tokio1);
        Pool::builder(mgr)
            .config(pool_cfg(sc))
            .runtime(deadpool::Runtime::Tokio1)
            .build()
            .expect("r2d2 pool")
    }
    fn marker(c: &mut Self::C) -> (u32, bool) {
        let s = c.serial;
        let fresh = with_w(|w| w.conns.get(&s).map(|c| c.handouts == 0).unwrap_or(false));
        (s, fresh)
    }
    fn act(c: &mut Self::C, serial: u32, kind: IKind) {
        if c.serial != serial {
            let got = c.serial;
            with_w(|w| w.violate("interact_result_faithful", format!("interact on connection #{serial} was given connection #{got}")));
        }
        if kind == IKind::MarkBroken {
            c.broken = true;
            with_w(|w| {
                w.fault("marked_broken");
                w.mark_dead(serial, "marked_broken");
            });
        }
        if kind == IKind::Invalidate {
            c.invalid = true;
            with_w(|w| {
                w.fault("connection_invalidated");
                w.mark_dead(serial, "fails_validity_check");
            });
        }
    }
    fn err_text(e: &PoolError<ScriptErr>) -> String {
        format!("{e:?}")
    }
}

// ---- deadpool-diesel (sqlite) ----------------------------------------------

pub struct DieselB;

fn d_read_marker(c: &mut diesel::SqliteConnection) -> i32 {
    use diesel::RunQueryDsl;
    diesel::dsl::sql::<diesel::sql_types::Integer>("PRAGMA user_version")
        .get_result::<i32>(c)
        .expect("harness: read user_version")
}

fn d_exec(c: &mut diesel::SqliteConnection, q: &str) {
    use diesel::RunQueryDsl;
    let _ = diesel::sql_query(q).execute(c).unwrap_or_else(|e| panic!("harness: {q}: {e}"));
}

fn d_custom_check(c: &mut diesel::SqliteConnection) -> Result<(), deadpool_diesel::Error> {
    engine::point("harness.closure.begin");
    let serial = d_read_marker(c) as u32;
    let mut panic_now = false;
    let bad = with_w(|w| {
        let n = w.valid_calls;
        w.valid_calls += 1;
        if w.sc.valid_panic_calls.contains(&n) {
            w.fault("custom_check_panics");
            if serial != 0 {
                w.mark_reported(serial, "custom_check_panicked");
            }
            trace!("  custom check(#{}) call #{} -> panics (scripted)", serial, n);
            panic_now = true;
            false
        } else if w.sc.valid_err_calls.contains(&n) {
            w.fault("custom_check_err");
            if serial != 0 {
                w.mark_reported(serial, "custom_check_err");
            }
            trace!("  custom check(#{}) call #{} -> Err (scripted)", serial, n);
            true
        } else {
            false
        }
    });
    if panic_now {
        std::panic::panic_any(InjectedPanic(serial));
    }
    engine::point("harness.closure.end");
    if bad {
        Err(deadpool_diesel::Error::Ping(diesel::result::Error::NotFound))
    } else {
        Ok(())
    }
}

impl Bk for DieselB {
    type C = diesel::SqliteConnection;
    type M = deadpool_diesel::sqlite::Manager;
    fn build(sc: &BScenario) -> Pool<Self::M> {
        use deadpool_diesel::{ManagerConfig, RecyclingMethod};
        let method = match sc.backend {
            Backend::Diesel { method } => method,
            _ => DMethod::Fast,
        };
        let recycling_method = match method {
            DMethod::Fast => RecyclingMethod::Fast,
            DMethod::Verified => RecyclingMethod::Verified,
            DMethod::CustomQuery => RecyclingMethod::CustomQuery("SELECT 1 FROM verif_alive".into()),
            DMethod::CustomFunction => RecyclingMethod::CustomFunction(Box::new(d_custom_check)),
        };
        let mgr = deadpool_diesel::sqlite::Manager::from_config(
            ":memory:",
            deadpool::Runtime::Tokio1,
            ManagerConfig { recycling_method },
        );
        Pool::builder(mgr)
            .config(pool_cfg(sc))
            .runtime(deadpool::Runtime::Tokio1)
            .build()
            .expect("diesel pool")
    }
    fn marker(c: &mut Self::C) -> (u32, bool) {
        let v = d_read_marker(c);
        if v != 0 {
            return (v as u32, false);
        }
        let s = with_w(|w| w.new_conn());
        d_exec(c, &format!("PRAGMA user_version = {s}"));
        d_exec(c, "CREATE TABLE verif_alive (x INTEGER)");
        with_w(|w| {
            if let Some(r) = w.conns.get_mut(&s) {
                r.alive_table = true;
            }
        });
        (s, true)
    }
    fn act(c: &mut Self::C, serial: u32, kind: IKind) {
        use diesel::connection::{AnsiTransactionManager, TransactionManager};
        use diesel::Connection;
        let v = d_read_marker(c) as u32;
        if v != serial {
            with_w(|w| w.violate("interact_result_faithful", format!("interact on connection #{serial} was given connection #{v}")));
            return;
        }
        let (tx_open, test_tx, custom_query, tx_error) = with_w(|w| {
            let r = w.conns.get(&serial).cloned().unwrap_or_default();
            (r.tx_open, r.test_tx, matches!(w.sc.backend, Backend::Diesel { method: DMethod::CustomQuery }), r.tx_error)
        });
        match kind {
            IKind::LeaveTx if !test_tx && !tx_error => {
                AnsiTransactionManager::begin_transaction(c).expect("harness: begin_transaction");
                with_w(|w| {
                    if let Some(r) = w.conns.get_mut(&serial) {
                        r.tx_open = true;
                    }
                    w.fault("left_transaction_open");
                    w.mark_dead(serial, "left_transaction_open");
                });
            }
            IKind::TxError if !tx_open && !test_tx => {
                // a ROLLBACK issued behind the transaction manager's back makes its own rollback
                // fail: the manager ends up in its error state, which diesel reports as broken
                let r: Result<(), diesel::result::Error> = c.transaction(|c| {
                    use diesel::RunQueryDsl;
                    let _ = diesel::sql_query("ROLLBACK").execute(c)?;
                    Err(diesel::result::Error::RollbackTransaction)
                });
                let _ = r;
                if AnsiTransactionManager::is_broken_transaction_manager(c) {
                    with_w(|w| {
                        if let Some(r) = w.conns.get_mut(&serial) {
                            r.tx_open = true;
                            r.tx_error = true;
                        }
                        w.fault("transaction_manager_in_error");
                        w.mark_dead(serial, "transaction_manager_in_error");
                    });
                } else {
                    with_w(|w| w.probe("tx_error_not_reached"));
                }
            }
            IKind::TestTx if !tx_open && !test_tx => {
                c.begin_test_transaction().expect("harness: begin_test_transaction");
                with_w(|w| {
                    if let Some(r) = w.conns.get_mut(&serial) {
                        r.test_tx = true;
                    }
                    w.probe("test_transaction_opened");
                });
            }
            IKind::Invalidate if custom_query => {
                d_exec(c, "DROP TABLE IF EXISTS verif_alive");
                with_w(|w| {
                    if let Some(r) = w.conns.get_mut(&serial) {
                        r.alive_table = false;
                    }
                    w.fault("validity_table_dropped");
                    w.mark_dead(serial, "validity_query_fails");
                });
            }
            _ => {}
        }
        // model sanity: the ledger's notion of "open non-test transaction" is diesel's
        let broken = AnsiTransactionManager::is_broken_transaction_manager(c);
        let expect = with_w(|w| w.conns.get(&serial).map(|r| r.tx_open).unwrap_or(false));
        if broken != expect {
            with_w(|w| w.harness_error(format!("connection #{serial}: ledger says open transaction = {expect}, diesel says broken = {broken}")));
        }
    }
    fn err_text(e: &PoolError<deadpool_diesel::Error>) -> String {
        format!("{e:?}")
    }
}

// ---------------------------------------------------------------------------
// client operations (generic over the backend)
// ---------------------------------------------------------------------------

type Held<B> = Vec<(u32, Object<<B as Bk>::M>)>;

/// Reads the identity of a connection through the wrapper's mutex, poisoned or not.
fn identify<B: Bk>(obj: &SyncWrapper<B::C>) -> (u32, bool, bool) {
    loop {
        let r = engine::no_yield(|| match obj.try_lock() {
            Ok(mut g) => {
                let (s, fresh) = B::marker(&mut g);
                Some((s, fresh, false))
            }
            Err(TryLockError::Poisoned(p)) => {
                let mut g = p.into_inner();
                let (s, fresh) = B::marker(g.as_mut().expect("harness: wrapped connection present"));
                Some((s, fresh, true))
            }
            Err(TryLockError::WouldBlock) => None,
        });
        match r {
            Some(x) => return x,
            // a cancelled closure is still running on this connection
            None => {
                let _ = engine::suspend(Yield::LockBusy("harness.ident"));
            }
        }
    }
}

fn set_phase(actor: usize, p: Phase) {
    with_w(|w| {
        if p != Phase::Idle {
            // another client in the middle of an operation => overlapping operations
            let other = w.phase.iter().any(|(a, ph)| *a != actor && *ph != Phase::Idle);
            if other {
                w.overlap = true;
            }
        }
        let _ = w.phase.insert(actor, p);
    });
}

fn begin_get(actor: usize, cancellable: bool, audit: bool) -> u32 {
    let g = with_w(|w| {
        w.ops += 1;
        let t0 = w.tick();
        let mut idle_dead = 0;
        let mut idle_live = 0;
        let mut any_dead = false;
        for c in w.conns.values() {
            if c.is_dead() {
                any_dead = true;
            }
            if c.idle && c.dtor_count == 0 {
                if c.is_dead() {
                    idle_dead += 1;
                } else {
                    idle_live += 1;
                }
            }
        }
        if any_dead {
            w.dead_then_get = true;
        }
        w.gets.push(GetRec { actor, t0, cancellable, audit, connect_errs: 0, idle_dead, idle_live, last_lock_step: None });
        let g = (w.gets.len() - 1) as u32;
        engine::log_event(&[420, actor as u64, g as u64]);
        g
    });
    // nothing in these pools has a deadline; offering the controller a distant instant lets time
    // pass while blocking jobs are still queued (a change that adds a deadline of its own then
    // meets a slow blocking pool)
    engine::register_deadline(400);
    g
}

/// Judges a hand-out. Returns the serial.
fn judge_handout<B: Bk>(who: &str, g: u32, obj: &SyncWrapper<B::C>) -> u32 {
    let (serial, fresh, poisoned_now) = identify::<B>(obj);
    with_w(|w| {
        let t0 = w.gets[g as usize].t0;
        let (idle_dead, idle_live) = (w.gets[g as usize].idle_dead, w.gets[g as usize].idle_live);
        engine::log_event(&[421, g as u64, serial as u64, fresh as u64]);
        trace!("{} get#{} -> connection #{}{}{}", who, g, serial, if fresh { " (new)" } else { "" }, if poisoned_now { " [mutex poisoned]" } else { "" });
        let Some(c) = w.conns.get_mut(&serial) else {
            w.harness_error(format!("get#{g} handed out unknown connection #{serial}"));
            return;
        };
        c.handouts += 1;
        c.idle = false;
        if c.first_get.is_none() {
            c.first_get = Some(g);
        }
        let c = c.clone();
        if c.taken || c.dtor_count > 0 {
            w.violate("dead_connection_never_reissued", format!("get#{g} handed out connection #{serial} which had left the pool (taken={}, destroyed={})", c.taken, c.dtor_count > 0));
        }
        if let Some(d) = c.dead_since {
            if d < t0 {
                w.violate(
                    "dead_connection_never_reissued",
                    format!("get#{g} ({who}) handed out connection #{serial} which was dead before the get was invoked ({})", c.dead_cause),
                );
            } else {
                // became dead while this get was in flight (late closure): judged at its next
                // hand-out – unless the get's own validity check locked the connection after the
                // closure had panicked: a check that runs against a poisoned connection cannot
                // have accepted it
                let locked_after = match (c.poisoned_step, w.gets[g as usize].last_lock_step) {
                    (Some(p), Some(l)) => l > p && !fresh,
                    _ => false,
                };
                if locked_after {
                    w.violate(
                        "dead_connection_never_reissued",
                        format!("get#{g} ({who}) handed out connection #{serial}: its recycle check took the connection's lock after a closure had panicked on it (mutex poisoned) and still accepted it"),
                    );
                } else {
                    w.probe("handed_out_then_died_in_flight");
                }
            }
        }
        if c.reported_dead.is_some() {
            w.violate(
                "dead_connection_never_reissued",
                format!("get#{g} ({who}) handed out connection #{serial} although the backend had reported it unusable ({})", c.reported_cause),
            );
        }
        if poisoned_now && c.poisoned_since.is_none() {
            w.violate("no_unexpected_panic", format!("connection #{serial} has a poisoned mutex although no injected panic happened on it"));
        }
        w.probe("handout_checked");
        if fresh && idle_dead > 0 && idle_live == 0 {
            w.probe("replacement_created");
        }
        if !fresh && c.handouts > 1 {
            w.probe("live_connection_reused");
        }
    });
    serial
}

fn do_get<B: Bk>(pool: &Pool<B::M>, actor: usize, held: &mut Held<B>, cancellable: bool) {
    let g = begin_get(actor, cancellable, false);
    trace!("client{} get#{} invoked", actor, g);
    set_phase(actor, Phase::InGet(g));
    let mut st = DriveStats::default();
    let end = drive(pool.get(), &mut st);
    set_phase(actor, Phase::Other);
    match end {
        PollEnd::Ready(Ok(obj)) => {
            with_w(|w| w.probe("get_ok"));
            let serial = judge_handout::<B>(&format!("client{actor}"), g, &obj);
            held.push((serial, obj));
        }
        PollEnd::Ready(Err(e)) => {
            let txt = B::err_text(&e);
            with_w(|w| {
                trace!("client{} get#{} -> Err({})", actor, g, txt);
                let rec = w.gets[g as usize].clone();
                match e {
                    PoolError::Backend(_) if rec.connect_errs > 0 => w.probe("get_err_connect"),
                    _ => w.violate(
                        "replacement_created",
                        format!("get#{g} returned {txt} although connecting a replacement was possible ({} dead / {} live idle connections at invocation)", rec.idle_dead, rec.idle_live),
                    ),
                }
            });
        }
        PollEnd::Cancelled => with_w(|w| {
            trace!("client{} get#{} cancelled", actor, g);
            w.fault("get_cancelled");
        }),
        PollEnd::Panicked(_) => with_w(|w| {
            let m = engine::take_last_panic().unwrap_or_default();
            w.violate("no_unexpected_panic", format!("get#{g} panicked on the caller: {m}"));
        }),
    }
    set_phase(actor, Phase::Idle);
}

fn do_return<B: Bk>(actor: usize, serial: u32, obj: Object<B::M>) {
    set_phase(actor, Phase::Other);
    with_w(|w| {
        w.ops += 1;
        trace!("{} returns connection #{}", name(w, actor), serial);
        engine::log_event(&[430, actor as u64, serial as u64]);
        if let Some(c) = w.conns.get_mut(&serial) {
            c.idle = true;
        }
    });
    if catch_unwind(AssertUnwindSafe(move || drop(obj))).is_err() {
        with_w(|w| {
            let m = engine::take_last_panic().unwrap_or_default();
            w.violate("no_unexpected_panic", format!("returning connection #{serial} panicked: {m}"));
        });
    }
    set_phase(actor, Phase::Idle);
}

fn do_interact<B: Bk>(actor: usize, held: &mut Held<B>, h: u8, kind: IKind, cancellable: bool) {
    if held.is_empty() {
        return;
    }
    let i = h as usize % held.len();
    let serial = held[i].0;
    let iid = with_w(|w| {
        w.ops += 1;
        w.interacts.push(IRec { serial, kind, cancellable, begin: None, end: None });
        (w.interacts.len() - 1) as u32
    });
    trace!("client{} interact#{} on connection #{} ({:?}{})", actor, iid, serial, kind, if cancellable { ", cancellable" } else { "" });
    set_phase(actor, Phase::InInteract(iid));
    let fut = held[i].1.interact(move |c: &mut B::C| -> u32 {
        let a = current_actor();
        with_w(|w| {
            let s = w.tick();
            w.interacts[iid as usize].begin = Some(s);
            engine::log_event(&[440, iid as u64, a as u64]);
            if !w.is_worker(a) {
                let n = name(w, a);
                w.violate("destroyed_off_thread", format!("interact closure #{iid} ran on {n}, not on a blocking thread"));
            }
        });
        engine::point("harness.closure.begin");
        B::act(c, serial, kind);
        engine::point("harness.closure.mid");
        if kind == IKind::Panic {
            with_w(|w| {
                w.fault("closure_panic");
                w.mark_dead(serial, "closure_panic");
                let s = w.tick();
                w.interacts[iid as usize].end = Some(s);
                trace!("  closure of interact#{} panics on connection #{}", iid, serial);
            });
            std::panic::panic_any(InjectedPanic(iid));
        }
        engine::point("harness.closure.end");
        with_w(|w| {
            let s = w.tick();
            w.interacts[iid as usize].end = Some(s);
        });
        iid
    });
    let mut st = DriveStats::default();
    let end = drive(fut, &mut st);
    set_phase(actor, Phase::Other);
    with_w(|w| match end {
        PollEnd::Ready(Ok(got)) => {
            if kind == IKind::Panic || got != iid {
                w.violate("interact_result_faithful", format!("interact#{iid} ({kind:?}) on connection #{serial} returned Ok({got})"));
            }
        }
        PollEnd::Ready(Err(InteractError::Panic(p))) => {
            let injected = p.downcast_ref::<InjectedPanic>().map(|x| x.0);
            let poisoned = w.conns.get(&serial).map(|c| c.poisoned_since.is_some()).unwrap_or(false);
            match injected {
                Some(x) if x == iid && kind == IKind::Panic => w.probe("closure_panic_reported"),
                Some(x) => w.violate("no_unexpected_panic", format!("interact#{iid} ({kind:?}) reported the panic payload of interact#{x}")),
                // every interact on a poisoned wrapper fails with the poison error as payload
                None if poisoned => w.probe("interact_on_poisoned_connection"),
                None => {
                    let m = engine::take_last_panic().unwrap_or_default();
                    w.violate("no_unexpected_panic", format!("interact#{iid} on connection #{serial} reported a foreign panic: {m}"));
                }
            }
        }
        PollEnd::Ready(Err(InteractError::Aborted)) => {
            w.violate("interact_result_faithful", format!("interact#{iid} on checked-out connection #{serial} returned Aborted"));
        }
        PollEnd::Cancelled => {
            let r = &w.interacts[iid as usize];
            let k = match (r.begin, r.end) {
                (None, _) => "interact_cancelled_before_start",
                (Some(_), None) => "interact_cancelled_while_running",
                (Some(_), Some(_)) => "interact_cancelled_after_finish",
            };
            trace!("client{} interact#{} cancelled ({})", actor, iid, k);
            w.fault(k);
        }
        PollEnd::Panicked(_) => {
            let m = engine::take_last_panic().unwrap_or_default();
            w.violate("no_unexpected_panic", format!("interact#{iid} panicked on the caller: {m}"));
        }
    });
    set_phase(actor, Phase::Idle);
}

fn do_take<B: Bk>(actor: usize, held: &mut Held<B>, h: u8) {
    if held.is_empty() {
        return;
    }
    let i = h as usize % held.len();
    let (serial, obj) = held.remove(i);
    set_phase(actor, Phase::Other);
    with_w(|w| {
        w.ops += 1;
        trace!("client{} takes connection #{} out of the pool", actor, serial);
        engine::log_event(&[450, actor as u64, serial as u64]);
        if let Some(c) = w.conns.get_mut(&serial) {
            c.taken = true;
        }
        w.probe("object_taken");
    });
    let r = catch_unwind(AssertUnwindSafe(move || {
        let wrapper = Object::take(obj);
        drop(wrapper);
    }));
    if r.is_err() {
        with_w(|w| {
            let m = engine::take_last_panic().unwrap_or_default();
            w.violate("no_unexpected_panic", format!("Object::take of connection #{serial} panicked: {m}"));
        });
    }
    set_phase(actor, Phase::Idle);
}

fn do_lock<B: Bk>(actor: usize, held: &mut Held<B>, h: u8) {
    if held.is_empty() {
        return;
    }
    let i = h as usize % held.len();
    let (serial, obj) = &held[i];
    let serial = *serial;
    let called = engine::no_yield(|| {
        if matches!(obj.try_lock(), Err(TryLockError::WouldBlock)) {
            return false;
        }
        // the caller looks at the connection directly; whatever it finds, the guard is dropped again
        let _ = obj.lock();
        true
    });
    with_w(|w| {
        w.ops += 1;
        if called {
            trace!("client{} calls lock() on connection #{}", actor, serial);
            engine::log_event(&[470, actor as u64, serial as u64]);
            w.probe("lock_called");
        }
    });
}

fn do_status<B: Bk>(pool: &Pool<B::M>, actor: usize) {
    set_phase(actor, Phase::Other);
    // not under no_yield: the slots lock may be held by a suspended actor
    let st = pool.status();
    with_w(|w| {
        w.ops += 1;
        engine::log_event(&[460, st.size as u64, st.available as u64, st.waiting as u64]);
        if st.max_size != w.sc.max_size || st.size > st.max_size {
            w.violate("full_capacity_kept", format!("status() reports size {} / max_size {} (configured {})", st.size, st.max_size, w.sc.max_size));
        }
    });
    set_phase(actor, Phase::Idle);
}

fn run_op<B: Bk>(pool: &Pool<B::M>, actor: usize, held: &mut Held<B>, op: BOp) {
    match op {
        BOp::Get { cancellable } => do_get::<B>(pool, actor, held, cancellable),
        BOp::Return { h } => {
            if !held.is_empty() {
                let i = h as usize % held.len();
                let (serial, obj) = held.remove(i);
                do_return::<B>(actor, serial, obj);
            }
        }
        BOp::Interact { h, kind, cancellable } => do_interact::<B>(actor, held, h, kind, cancellable),
        BOp::Take { h } => do_take::<B>(actor, held, h),
        BOp::Status => do_status::<B>(pool, actor),
        BOp::Lock { h } => do_lock::<B>(actor, held, h),
        BOp::Nop => {}
    }
}

fn client_body<B: Bk>(pool: Pool<B::M>, actor: usize, ops: Vec<BOp>) -> Box<dyn FnOnce()> {
    Box::new(move || {
        let mut held: Held<B> = Vec::new();
        for op in ops {
            op_boundary();
            if with_w(|w| w.draining) {
                break;
            }
            run_op::<B>(&pool, actor, &mut held, op);
        }
        while let Some((serial, obj)) = held.pop() {
            do_return::<B>(actor, serial, obj);
        }
        drop(pool);
    })
}

/// Epilogue actor: everything is back in the pool and every worker has finished.
fn auditor_body<B: Bk>(pool: Pool<B::M>) -> Box<dyn FnOnce()> {
    Box::new(move || {
        let me = current_actor();
        let max = with_w(|w| {
            w.auditor = Some(me);
            w.audit_mode = true;
            w.sc.max_size
        });
        set_phase(me, Phase::Other);
        let st = pool.status();
        with_w(|w| {
            engine::log_event(&[470, st.size as u64, st.available as u64]);
            trace!("auditor: status before = {:?}", st);
            if st.max_size != max || st.size > max || st.available != st.size || st.waiting != 0 {
                w.violate("full_capacity_kept", format!("after everything was returned status() is {st:?} (configured max_size {max})"));
            }
        });
        let nb = Timeouts { wait: Some(Duration::ZERO), create: None, recycle: None };
        let mut held: Held<B> = Vec::new();
        let mut ok = true;
        for k in 0..=max {
            let g = begin_get(me, false, true);
            set_phase(me, Phase::InGet(g));
            let mut ds = DriveStats::default();
            let end = drive(pool.timeout_get(&nb), &mut ds);
            set_phase(me, Phase::Other);
            match end {
                PollEnd::Ready(Ok(obj)) => {
                    if k == max {
                        let serial = judge_handout::<B>("auditor", g, &obj);
                        with_w(|w| w.violate("full_capacity_kept", format!("a pool of max_size {max} handed out {} connections at the same time (the last one is #{serial})", max + 1)));
                        ok = false;
                        held.push((serial, obj));
                    } else {
                        let serial = judge_handout::<B>("auditor", g, &obj);
                        if held.iter().any(|(s, _)| *s == serial) {
                            with_w(|w| w.violate("full_capacity_kept", format!("connection #{serial} was handed out twice at the same time")));
                        }
                        held.push((serial, obj));
                    }
                }
                PollEnd::Ready(Err(e)) => {
                    let txt = B::err_text(&e);
                    let is_wait = matches!(e, PoolError::Timeout(TimeoutType::Wait));
                    with_w(|w| {
                        trace!("auditor: get {} of {} -> Err({})", k + 1, max, txt);
                        if k < max {
                            ok = false;
                            if is_wait {
                                w.violate("full_capacity_kept", format!("only {k} of {max} connections could be checked out together after everything was returned (then Timeout(Wait))"));
                            } else {
                                w.violate("replacement_created", format!("epilogue get {} of {max} returned {txt}", k + 1));
                            }
                        } else if !is_wait {
                            ok = false;
                            w.violate("full_capacity_kept", format!("the get beyond max_size returned {txt} instead of Timeout(Wait)"));
                        }
                    });
                }
                PollEnd::Cancelled => {
                    ok = false;
                }
                PollEnd::Panicked(_) => {
                    ok = false;
                    with_w(|w| {
                        let m = engine::take_last_panic().unwrap_or_default();
                        w.violate("no_unexpected_panic", format!("epilogue get panicked on the caller: {m}"));
                    });
                }
            }
            if !ok {
                break;
            }
        }
        if ok {
            let st = pool.status();
            with_w(|w| {
                let live = held.iter().filter(|(s, _)| w.conns.get(s).map(|c| !c.is_dead()).unwrap_or(false)).count();
                if st.size != max || st.available != 0 || live != max {
                    w.violate("full_capacity_kept", format!("with {max} connections checked out status() is {st:?} and {live} of them are live"));
                }
            });
        }
        let n_held = held.len();
        while let Some((serial, obj)) = held.pop() {
            do_return::<B>(me, serial, obj);
        }
        set_phase(me, Phase::Other);
        if ok {
            let st = pool.status();
            with_w(|w| {
                if st.size != n_held || st.available != n_held || st.size != max {
                    w.violate("full_capacity_kept", format!("after the capacity probe status() is {st:?} (expected size = available = {max})"));
                }
                // dead connections that were idle and are not among the pooled ones have been discarded
                let n = w.conns.values().filter(|c| c.is_dead() && c.idle && !c.taken).count() as u64;
                if !matches!(w.sc.backend, Backend::R2d2) {
                    *w.probes.entry("dead_connection_discarded".into()).or_insert(0) += n;
                }
                w.probe("probe_full_capacity");
            });
        }
        with_w(|w| w.audit_done = true);
        set_phase(me, Phase::Idle);
        drop(pool);
    })
}

// ---------------------------------------------------------------------------
// world
// ---------------------------------------------------------------------------

pub struct BHandle;

impl World for BHandle {
    fn actors(&self) -> usize {
        with_w(|w| w.n_clients)
    }
    fn actor_body(&mut self, _i: usize) -> Box<dyn FnOnce()> {
        unreachable!("client bodies are built by run_generic")
    }
    fn openable_gates(&mut self, _out: &mut Vec<u32>) {}
    fn open_gate(&mut self, _g: u32) {}
    fn cancellable(&mut self, actor: usize) -> bool {
        with_w(|w| {
            if w.draining {
                return true;
            }
            match w.phase.get(&actor).copied().unwrap_or(Phase::Idle) {
                Phase::InGet(g) => w.gets[g as usize].cancellable || w.stuck,
                Phase::InInteract(i) => w.interacts[i as usize].cancellable,
                _ => false,
            }
        })
    }
    fn after_step(&mut self, info: &SimInfo) -> Option<Violation> {
        with_w(|w| {
            w.stuck = false;
            match info.last {
                Decision::Run(a) | Decision::Cancel(a) | Decision::Spurious(a) => w.last_run = a,
                _ => {}
            }
            // which get's jobs acquired a connection mutex in this step
            let new = engine::site_log_since(w.site_log_pos);
            w.site_log_pos += new.len();
            let lock_site = engine::site_index("sync.interact.lock").unwrap() as u16;
            for (step, actor, site) in new {
                if site == lock_site {
                    if let Some(Origin::Get(g)) = w.worker_origin.get(&actor).copied() {
                        w.gets[g as usize].last_lock_step = Some(step);
                    }
                }
            }
            w.pending_violation.take()
        })
    }
    fn quiescent(&mut self, _info: &SimInfo) -> Option<Violation> {
        with_w(|w| {
            // nobody can move: every client waits for a permit somebody else holds
            w.stuck = true;
            w.pending_violation.take()
        })
    }
    fn spawn_pending(&mut self) -> Vec<Box<dyn FnOnce()>> {
        let jobs = engine::take_spawned_jobs();
        let mut out: Vec<Box<dyn FnOnce()>> = Vec::new();
        for job in jobs {
            let origin = with_w(|w| {
                w.workers_started += 1;
                let lr = w.last_run;
                w.origin_of(lr)
            });
            out.push(Box::new(move || {
                let me = current_actor();
                with_w(|w| {
                    let _ = w.worker_origin.insert(me, origin);
                });
                op_boundary();
                let _ = engine::take_last_panic();
                job();
                if let Some(m) = engine::take_last_panic() {
                    with_w(|w| judge_worker_panic(w, me, origin, &m));
                }
            }));
        }
        out
    }
}

/// A panic was raised (and caught by the blocking pool) inside a worker job.
fn judge_worker_panic(w: &mut BWorld, me: usize, origin: Origin, m: &str) {
    if m.starts_with("<injected>") {
        return;
    }
    trace!("  worker(actor {}) [{:?}] caught panic: {}", me, origin, m);
    if m.contains("PoisonError") {
        match origin {
            Origin::Get(g) => {
                let t0 = w.gets[g as usize].t0;
                if w.last_poison_seq.map(|p| p < t0).unwrap_or(true) {
                    // Not a C15 violation: the property only demands that the connection is not
                    // reissued, and a recycle that trips over the poisoned mutex still discards
                    // it. Counted so that the difference is visible in the evidence.
                    let _ = (g, m);
                    w.probe("recycle_ran_against_already_poisoned_connection");
                } else {
                    w.probe("recycle_met_late_poison");
                }
            }
            _ => w.probe("job_on_poisoned_connection"),
        }
    } else {
        w.violate("no_unexpected_panic", format!("a blocking job ({origin:?}) panicked with a foreign payload: {m}"));
    }
}

fn settle_into(sim: &mut Sim, h: &mut BHandle, violation: &mut Option<Violation>) {
    if let Err(Some(v)) = sim.settle(h, 50_000) {
        if violation.is_none() {
            *violation = Some(v);
        }
    }
}

pub fn run_bscenario(sc: &BScenario, replay: Option<Vec<Decision>>, trace: bool) -> RunOutcome {
    match sc.backend {
        Backend::Sqlite => run_generic::<SqliteB>(sc, replay, trace),
        Backend::R2d2 => run_generic::<R2d2B>(sc, replay, trace),
        Backend::Diesel { .. } => run_generic::<DieselB>(sc, replay, trace),
    }
}

fn run_generic<B: Bk>(sc: &BScenario, replay: Option<Vec<Decision>>, trace: bool) -> RunOutcome {
    begin_run(&sc.knobs, sc.clients.len(), trace, STACK);
    engine::set_blocking_seam(true);
    let mut sim = Sim::new(sc.sched_seed, sc.knobs.clone(), replay);
    let handle = sim.clock.handle();
    let guard = handle.enter();
    let n = sc.clients.len();
    BW.with(|c| {
        *c.borrow_mut() = Some(BWorld {
            sc: sc.clone(),
            n_clients: n,
            auditor: None,
            conns: BTreeMap::new(),
            next_serial: 0,
            seq: 0,
            interacts: Vec::new(),
            gets: Vec::new(),
            phase: BTreeMap::new(),
            worker_origin: BTreeMap::new(),
            site_log_pos: 0,
            last_run: CONTROLLER,
            last_poison_seq: None,
            draining: false,
            stuck: false,
            audit_mode: false,
            audit_done: false,
            pending_violation: None,
            faults: BTreeMap::new(),
            probes: BTreeMap::new(),
            workers_started: 0,
            ops: 0,
            connect_calls: 0,
            valid_calls: 0,
            broken_calls: 0,
            overlap: false,
            dead_then_get: false,
        })
    });
    trace!("scenario: backend {:?}, max_size {}, {} clients", sc.backend, sc.max_size, n);
    let pool = B::build(sc);
    let mut h = BHandle;
    for i in 0..n {
        let b = client_body::<B>(pool.clone(), i, sc.clients[i].clone());
        let _ = sim.add_actor(b);
    }
    let mut violation = None;
    let mut diverged = None;
    let mut step_cap_hit = false;
    let end = sim.run(&mut h);
    let main_len = sim.decisions.len();
    match end {
        RunEnd::Finished => {}
        RunEnd::Violation(v) => violation = Some(v),
        RunEnd::StepCap => step_cap_hit = true,
        RunEnd::Diverged(e) => diverged = Some(e),
        RunEnd::Deadlock(d) => {
            violation = Some(engine::violation("C15", "no_progress", format!("no thread can move: {d} wait for a lock that is never released")))
        }
    }
    // epilogue 1: cancel whatever is pending, let every client return what it holds, run every
    // worker to completion
    with_w(|w| w.draining = true);
    let mut drained = false;
    let mut late: Option<Violation> = None;
    for _ in 0..64 {
        settle_into(&mut sim, &mut h, &mut late);
        let pending = sim.pending_actors();
        if pending.is_empty() {
            drained = sim.all_done();
            break;
        }
        for a in pending {
            with_w(|w| w.last_run = a);
            let _ = sim.resume(a, Resume::Cancel);
        }
    }
    if violation.is_none() && diverged.is_none() {
        violation = late.take().or_else(|| with_w(|w| w.pending_violation.take()));
        if violation.is_none() && (!drained || step_cap_hit) {
            violation = Some(engine::violation(PROP, "no_progress", format!("operations / blocking jobs could not be completed (step cap hit: {step_cap_hit})")));
        }
    }
    // epilogue 2: capacity probe by an auditor actor
    if violation.is_none() && diverged.is_none() {
        with_w(|w| w.last_run = CONTROLLER);
        let _ = sim.add_actor(auditor_body::<B>(pool.clone()));
        let mut ok = false;
        for _ in 0..8 {
            settle_into(&mut sim, &mut h, &mut late);
            if sim.all_done() {
                ok = true;
                break;
            }
            if sim.pending_actors().is_empty() {
                break;
            }
        }
        violation = late.take().or_else(|| with_w(|w| w.pending_violation.take()));
        if violation.is_none() && !(ok && with_w(|w| w.audit_done)) {
            violation = Some(engine::violation(PROP, "no_progress", "the capacity probe could not be completed".into()));
        }
    }
    // epilogue 3: drop the pool; the remaining connections are destroyed by worker jobs
    with_w(|w| w.last_run = CONTROLLER);
    let _ = catch_unwind(AssertUnwindSafe(move || drop(pool)));
    for _ in 0..8 {
        settle_into(&mut sim, &mut h, &mut late);
        if sim.pending_actors().is_empty() {
            break;
        }
        for a in sim.pending_actors() {
            let _ = sim.resume(a, Resume::Cancel);
        }
    }
    if violation.is_none() && diverged.is_none() {
        violation = late.take().or_else(|| with_w(|w| w.pending_violation.take()));
        if violation.is_none() && sim.all_done() {
            violation = with_w(final_checks);
        }
    }
    let w = BW.with(|c| c.borrow_mut().take()).unwrap();
    let stats = sim.stats.clone();
    let mut decisions = sim.decisions.clone();
    decisions.truncate(main_len);
    let mut faults = w.faults.clone();
    for (k, v) in [("controller_cancelled_future", stats.cancels), ("lock_contention_yield", stats.lock_busy)] {
        if v > 0 {
            *faults.entry(k.to_string()).or_insert(0) += v;
        }
    }
    let mut probes = w.probes.clone();
    *probes.entry("worker_jobs".into()).or_insert(0) += w.workers_started as u64;
    *probes.entry("connections_created".into()).or_insert(0) += w.conns.len() as u64;
    let nontrivial = w.dead_then_get || (w.overlap && stats.switches > 0);
    let ops = w.ops;
    drop(w);
    let _ = sim.abandon_unfinished();
    drop(guard);
    let virtual_ms = sim.clock.advanced_total_ms;
    drop(sim);
    engine::set_blocking_seam(false);
    let (log_hash, trace) = end_run();
    RunOutcome {
        violation,
        diverged,
        decisions,
        log_hash,
        trace,
        steps: stats.steps,
        switches: stats.switches,
        virtual_ms,
        ops,
        nontrivial,
        ileave: stats.interleaving_hash,
        faults,
        probes,
        states: Vec::new(),
        step_cap_hit,
        switch_pairs: stats.switch_pairs.iter().copied().collect(),
    }
}

fn final_checks(w: &mut BWorld) -> Option<Violation> {
    if matches!(w.sc.backend, Backend::R2d2) {
        // every scripted connection is destroyed exactly once, on a worker (checked where it is logged)
        let bad: Vec<(u32, u32)> = w.conns.iter().filter(|(_, c)| c.dtor_count != 1).map(|(s, c)| (*s, c.dtor_count)).collect();
        if let Some((s, n)) = bad.first() {
            return Some(engine::violation(PROP, "destroyed_off_thread", format!("connection #{s} was destroyed {n} times after the pool was dropped and every blocking job had run")));
        }
    }
    None
}

// ---------------------------------------------------------------------------
// generator
// ---------------------------------------------------------------------------

const POOL_SITES: &[&str] = &[
    "managed.get.enter",
    "managed.get.permit",
    "managed.get.loop",
    "managed.get.pre_disarm",
    "managed.get.pre_forget",
    "managed.get.post_forget",
    "managed.recycle.enter",
    "managed.recycle.pre_post_hooks",
    "managed.recycle.pre_metrics",
    "managed.create.pre_size",
    "managed.create.post_size",
    "managed.unready_drop.enter",
    "managed.unready_drop.pre_detach",
    "managed.take.enter",
    "managed.object_drop.enter",
    "managed.return.post_users",
    "managed.return.pre_add_permits",
    "managed.detach.post_users",
    "managed.detach.pre_add_permits",
    "managed.detach.pre_detach",
];

const HARNESS_SITES: &[&str] = &["harness.closure.begin", "harness.closure.mid", "harness.closure.end", "harness.dtor"];

pub fn gen_knobs(rng: &mut Rng) -> Knobs {
    let mut sites: Vec<String> = Vec::new();
    if rng.below(100) < 65 {
        let p = *rng.pick(&[150u32, 400, 700, 1000]);
        for s in POOL_SITES {
            debug_assert!(SITES.contains(s));
            if rng.permille(p) {
                sites.push(s.to_string());
            }
        }
        if rng.below(100) < 35 {
            let p2 = *rng.pick(&[100u32, 300, 600]);
            for s in SITES.iter().filter(|s| s.starts_with("sync.")) {
                let _ = SITES_IN_LOCK;
                if rng.permille(p2) {
                    sites.push(s.to_string());
                }
            }
        }
    }
    for s in HARNESS_SITES {
        if rng.below(100) < 70 {
            sites.push(s.to_string());
        }
    }
    Knobs {
        sites,
        strategy: *rng.pick(&[0u8, 1, 1, 2]),
        stick: rng.range(600, 950) as u32,
        pct_depth: rng.range(1, 3) as u8,
        p_env: *rng.pick(&[50u32, 150, 300, 500]),
        p_time: *rng.pick(&[0u32, 0, 100, 300]),
        p_spurious: *rng.pick(&[0u32, 0, 30, 150]),
        p_cancel: *rng.pick(&[0u32, 100, 300, 600]),
        step_cap: 30_000,
    }
}

fn gen_kind(rng: &mut Rng, backend: Backend) -> IKind {
    match backend {
        Backend::Sqlite => *rng.pick(&[IKind::Ok, IKind::Ok, IKind::Ok, IKind::Panic, IKind::Panic, IKind::Invalidate]),
        Backend::R2d2 => *rng.pick(&[IKind::Ok, IKind::Ok, IKind::Ok, IKind::Panic, IKind::Panic, IKind::MarkBroken, IKind::MarkBroken, IKind::Invalidate, IKind::Invalidate]),
        Backend::Diesel { method } => {
            let mut v = vec![IKind::Ok, IKind::Ok, IKind::Ok, IKind::Panic, IKind::Panic, IKind::LeaveTx, IKind::LeaveTx, IKind::TestTx, IKind::TxError];
            if method == DMethod::CustomQuery {
                v.push(IKind::Invalidate);
                v.push(IKind::Invalidate);
            }
            *rng.pick(&v)
        }
    }
}

fn gen_calls(rng: &mut Rng, n: u32, pct: usize) -> Vec<u32> {
    (0..n).filter(|_| rng.below(100) < pct).collect()
}

pub fn gen_backends(rng: &mut Rng, thorough: bool) -> BScenario {
    let only = std::env::var("DSIM_ONLY").unwrap_or_default();
    let wts: [u32; 3] = match only.as_str() { "sqlite" => [1, 0, 0], "r2d2" => [0, 1, 0], "diesel" => [0, 0, 1], _ => [30, 35, 35] };
    let backend = match rng.weighted(&wts) {
        0 => Backend::Sqlite,
        1 => Backend::R2d2,
        _ => Backend::Diesel { method: *rng.pick(&[DMethod::Fast, DMethod::Fast, DMethod::Verified, DMethod::CustomQuery, DMethod::CustomFunction]) },
    };
    let max_size = 1 + rng.weighted(&[35, 35, 20, 10]);
    let n_clients = 1 + rng.weighted(&[30, 45, 25]);
    let mut clients = Vec::new();
    for _ in 0..n_clients {
        let n_ops = rng.range(3, if thorough { 14 } else { 9 });
        let mut ops = Vec::new();
        let mut holding = 0usize;
        for k in 0..n_ops {
            let w_get = if holding == 0 { 60 } else if holding >= 2 { 5 } else { 18 };
            let w_hold = if holding == 0 { 0 } else { 1 };
            let op = match rng.weighted(&[w_get, 28 * w_hold, 40 * w_hold, 5 * w_hold, 6]) {
                0 => {
                    holding += 1;
                    BOp::Get { cancellable: rng.below(100) < 20 }
                }
                1 => {
                    holding -= 1;
                    BOp::Return { h: rng.below(3) as u8 }
                }
                2 => BOp::Interact { h: rng.below(3) as u8, kind: gen_kind(rng, backend), cancellable: rng.below(100) < 40 },
                3 => {
                    holding -= 1;
                    BOp::Take { h: rng.below(3) as u8 }
                }
                _ => {
                    if rng.below(100) < 60 {
                        BOp::Status
                    } else {
                        BOp::Lock { h: rng.below(3) as u8 }
                    }
                }
            };
            let _ = k;
            ops.push(op);
        }
        clients.push(ops);
    }
    let (connect_fail_calls, valid_err_calls, broken_true_calls) = match backend {
        Backend::R2d2 => (
            if rng.below(100) < 40 { gen_calls(rng, 8, 15) } else { Vec::new() },
            if rng.below(100) < 50 { gen_calls(rng, 10, 20) } else { Vec::new() },
            if rng.below(100) < 40 { gen_calls(rng, 10, 15) } else { Vec::new() },
        ),
        Backend::Diesel { method: DMethod::CustomFunction } => (Vec::new(), gen_calls(rng, 10, 25), Vec::new()),
        _ => (Vec::new(), Vec::new(), Vec::new()),
    };
    BScenario {
        profile: PROP.into(),
        backend,
        max_size,
        lifo: rng.below(100) < 35,
        clients,
        connect_fail_calls,
        valid_err_calls,
        valid_panic_calls: if matches!(backend, Backend::Diesel { method: DMethod::CustomFunction }) && rng.below(100) < 40 { gen_calls(rng, 10, 12) } else { Vec::new() },
        broken_true_calls,
        knobs: gen_knobs(rng),
        sched_seed: rng.next(),
    }
}

/// Canonical single-client histories: kill a connection, return it, get again.
pub fn grid_scenarios() -> Vec<BScenario> {
    let mut out = Vec::new();
    let base_knobs = Knobs { strategy: 1, stick: 950, p_env: 0, p_time: 0, p_spurious: 0, p_cancel: 0, step_cap: 30_000, ..Knobs::default() };
    let backends = [
        Backend::Sqlite,
        Backend::R2d2,
        Backend::Diesel { method: DMethod::Fast },
        Backend::Diesel { method: DMethod::Verified },
        Backend::Diesel { method: DMethod::CustomQuery },
        Backend::Diesel { method: DMethod::CustomFunction },
    ];
    let mk = |backend: Backend, max_size: usize, lifo: bool, ops: Vec<BOp>, valid: Vec<u32>, broken: Vec<u32>, connect: Vec<u32>| BScenario {
        profile: PROP.into(),
        backend,
        max_size,
        lifo,
        clients: vec![ops],
        connect_fail_calls: connect,
        valid_err_calls: valid,
        valid_panic_calls: Vec::new(),
        broken_true_calls: broken,
        knobs: base_knobs.clone(),
        sched_seed: 1,
    };
    let g = BOp::Get { cancellable: false };
    for b in backends {
        let kinds: Vec<IKind> = match b {
            Backend::Sqlite => vec![IKind::Ok, IKind::Panic, IKind::Invalidate],
            Backend::R2d2 => vec![IKind::Ok, IKind::Panic, IKind::MarkBroken, IKind::Invalidate],
            Backend::Diesel { method: DMethod::CustomQuery } => vec![IKind::Ok, IKind::Panic, IKind::LeaveTx, IKind::TestTx, IKind::Invalidate, IKind::TxError],
            Backend::Diesel { .. } => vec![IKind::Ok, IKind::Panic, IKind::LeaveTx, IKind::TestTx, IKind::TxError],
        };
        for max_size in [1usize, 2] {
            for lifo in [false, true] {
                for k in &kinds {
                    let i = BOp::Interact { h: 0, kind: *k, cancellable: false };
                    // one connection killed, returned, fetched again
                    out.push(mk(b, max_size, lifo, vec![g, i, BOp::Return { h: 0 }, g, BOp::Return { h: 0 }, g], vec![], vec![], vec![]));
                    // two connections, the second one killed
                    out.push(mk(b, max_size, lifo, vec![g, g, BOp::Interact { h: 1, kind: *k, cancellable: false }, BOp::Return { h: 1 }, BOp::Return { h: 0 }, g, g], vec![], vec![], vec![]));
                }
                if max_size == 2 {
                    // a whole pool of four dies, comes back and is asked for again (a run of
                    // consecutive failures, then still more dead connections)
                    for k in &kinds {
                        if *k == IKind::Ok || *k == IKind::TestTx {
                            continue;
                        }
                        let mut ops = vec![g, g, g, g];
                        for h in 0..4u8 {
                            ops.push(BOp::Interact { h, kind: *k, cancellable: false });
                        }
                        for _ in 0..4 {
                            ops.push(BOp::Return { h: 0 });
                        }
                        ops.extend([g, g, g, g]);
                        out.push(mk(b, 4, lifo, ops, vec![], vec![], vec![]));
                    }
                }
                if matches!(b, Backend::R2d2 | Backend::Diesel { method: DMethod::CustomFunction }) {
                    out.push(mk(b, max_size, lifo, vec![g, BOp::Return { h: 0 }, g, BOp::Return { h: 0 }, g], vec![0], vec![], vec![]));
                    out.push(mk(b, max_size, lifo, vec![g, BOp::Return { h: 0 }, g, BOp::Return { h: 0 }, g], vec![1], vec![], vec![]));
                }
                if matches!(b, Backend::R2d2) {
                    out.push(mk(b, max_size, lifo, vec![g, BOp::Return { h: 0 }, g, BOp::Return { h: 0 }, g], vec![], vec![0], vec![]));
                    out.push(mk(b, max_size, lifo, vec![g, BOp::Return { h: 0 }, g, BOp::Return { h: 0 }, g], vec![], vec![], vec![0, 2]));
                }
            }
        }
    }
    out
}

// ---------------------------------------------------------------------------
// harness
// ---------------------------------------------------------------------------

pub struct Backends;

fn op_name(o: &BOp) -> String {
    match o {
        BOp::Get { cancellable } => format!("Get{}", if *cancellable { "+canc" } else { "" }),
        BOp::Return { .. } => "Return".into(),
        BOp::Interact { kind, cancellable, .. } => format!("Interact!{:?}{}", kind, if *cancellable { "+canc" } else { "" }),
        BOp::Take { .. } => "Take".into(),
        BOp::Lock { .. } => "Lock".into(),
        BOp::Status => "Status".into(),
        BOp::Nop => "Nop".into(),
    }
}

impl Harness for Backends {
    type Sc = BScenario;
    fn name(&self) -> &'static str {
        "dsim-backends"
    }
    fn generate(&self, rng: &mut Rng, _profile: &str, thorough: bool) -> BScenario {
        gen_backends(rng, thorough)
    }
    fn run(&self, sc: &BScenario, replay: Option<Vec<Decision>>, trace: bool) -> RunOutcome {
        run_bscenario(sc, replay, trace)
    }
    fn set_sched_seed(&self, sc: &mut BScenario, seed: u64) {
        sc.sched_seed = seed;
    }
    fn grid(&self, _profile: &str, _thorough: bool) -> Vec<BScenario> {
        if std::env::var_os("DSIM_NO_GRID").is_some() {
            return Vec::new();
        }
        grid_scenarios()
    }
    fn shrink_candidates(&self, sc: &BScenario) -> Vec<BScenario> {
        let mut out = Vec::new();
        if sc.clients.len() > 1 {
            for i in 0..sc.clients.len() {
                let mut c = sc.clone();
                let _ = c.clients.remove(i);
                out.push(c);
            }
        }
        for i in 0..sc.clients.len() {
            for k in (0..sc.clients[i].len()).rev() {
                let mut c = sc.clone();
                let _ = c.clients[i].remove(k);
                if c.clients[i].is_empty() && c.clients.len() > 1 {
                    let _ = c.clients.remove(i);
                }
                out.push(c);
            }
        }
        for (get, set) in [
            (sc.connect_fail_calls.clone(), 0u8),
            (sc.valid_err_calls.clone(), 1u8),
            (sc.broken_true_calls.clone(), 2u8),
            (sc.valid_panic_calls.clone(), 3u8),
        ] {
            if get.is_empty() {
                continue;
            }
            let apply = |c: &mut BScenario, v: Vec<u32>| match set {
                0 => c.connect_fail_calls = v,
                1 => c.valid_err_calls = v,
                3 => c.valid_panic_calls = v,
                _ => c.broken_true_calls = v,
            };
            let mut c = sc.clone();
            apply(&mut c, Vec::new());
            out.push(c);
            for i in 0..get.len() {
                let mut v = get.clone();
                let _ = v.remove(i);
                let mut c = sc.clone();
                apply(&mut c, v);
                out.push(c);
            }
        }
        if sc.max_size > 1 {
            let mut c = sc.clone();
            c.max_size -= 1;
            out.push(c);
        }
        if sc.lifo {
            let mut c = sc.clone();
            c.lifo = false;
            out.push(c);
        }
        for i in 0..sc.clients.len() {
            for k in 0..sc.clients[i].len() {
                match sc.clients[i][k] {
                    BOp::Interact { h, kind, cancellable } => {
                        if cancellable {
                            let mut c = sc.clone();
                            c.clients[i][k] = BOp::Interact { h, kind, cancellable: false };
                            out.push(c);
                        }
                        if kind != IKind::Ok {
                            let mut c = sc.clone();
                            c.clients[i][k] = BOp::Interact { h, kind: IKind::Ok, cancellable };
                            out.push(c);
                        }
                        if h != 0 {
                            let mut c = sc.clone();
                            c.clients[i][k] = BOp::Interact { h: 0, kind, cancellable };
                            out.push(c);
                        }
                    }
                    BOp::Get { cancellable: true } => {
                        let mut c = sc.clone();
                        c.clients[i][k] = BOp::Get { cancellable: false };
                        out.push(c);
                    }
                    BOp::Return { h } | BOp::Take { h } if h != 0 => {
                        let mut c = sc.clone();
                        c.clients[i][k] = if matches!(sc.clients[i][k], BOp::Return { .. }) { BOp::Return { h: 0 } } else { BOp::Take { h: 0 } };
                        out.push(c);
                    }
                    _ => {}
                }
            }
        }
        if let Backend::Diesel { method } = sc.backend {
            if method != DMethod::Fast {
                let mut c = sc.clone();
                c.backend = Backend::Diesel { method: DMethod::Fast };
                out.push(c);
            }
        }
        if !sc.knobs.sites.is_empty() {
            let mut c = sc.clone();
            c.knobs.sites.clear();
            out.push(c);
            for i in 0..sc.knobs.sites.len() {
                let mut c = sc.clone();
                let _ = c.knobs.sites.remove(i);
                out.push(c);
            }
        }
        if sc.knobs.p_cancel > 0 {
            let mut c = sc.clone();
            c.knobs.p_cancel = 0;
            out.push(c);
        }
        if sc.knobs.p_spurious > 0 {
            let mut c = sc.clone();
            c.knobs.p_spurious = 0;
            out.push(c);
        }
        if sc.knobs.strategy != 1 || sc.knobs.stick != 950 {
            let mut c = sc.clone();
            c.knobs.strategy = 1;
            c.knobs.stick = 950;
            out.push(c);
        }
        out
    }
    fn shape(&self, sc: &BScenario) -> String {
        let mut s = format!("backend={:?} max_size={} {}", sc.backend, sc.max_size, if sc.lifo { "lifo" } else { "fifo" });
        for (i, c) in sc.clients.iter().enumerate() {
            let names: Vec<String> = c.iter().map(op_name).collect();
            s.push_str(&format!(" client{}:[{}]", i, names.join(",")));
        }
        if !sc.connect_fail_calls.is_empty() {
            s.push_str(&format!(" connect_fail={:?}", sc.connect_fail_calls));
        }
        if !sc.valid_err_calls.is_empty() {
            s.push_str(&format!(" valid_err={:?}", sc.valid_err_calls));
        }
        if !sc.valid_panic_calls.is_empty() {
            s.push_str(&format!(" valid_panic={:?}", sc.valid_panic_calls));
        }
        if !sc.broken_true_calls.is_empty() {
            s.push_str(&format!(" broken_true={:?}", sc.broken_true_calls));
        }
        s.push_str(&format!(" | sites=[{}]", sc.knobs.sites.join(",")));
        s
    }
}

