//! dsim-backends — deterministic simulation of the SyncWrapper based pools
//! (deadpool-sqlite, deadpool-r2d2, deadpool-diesel) on engine E1; decides property C15.
//!
//!   dsim-backends check C15 [--tier quick|thorough] [--secs S] [--runs N] [--workers N]
//!   dsim-backends replay <file> [--quiet]
//!   dsim-backends selfcheck C15 [--runs N]
//!   dsim-backends show C15 <run index> [--thorough]     (debug aid: trace of one seeded run)
//!
//! Exit codes: 0 property held on everything explored; 1 violation (a line
//! `VIOLATION property=C15 replay=<path>` is printed); 2 harness error.

#[path = "../../dsim/src/engine.rs"]
#[allow(dead_code)]
mod engine;
mod bworld;

use serde_json::json;
use simcore::cli::*;
use simcore::common::*;
use simcore::rng;

fn meta() -> PropMeta {
    PropMeta {
        level: "exploration",
        quick_secs: 20.0,
        thorough_secs: 300.0,
        rule: "each evaluation = one seeded scenario (backend sqlite | r2d2 | diesel{recycling method}, pool size 1..4, queue mode, 1..3 client scripts of get / return / interact{ok, panic, leave transaction open, test transaction, mark broken, invalidate, cancellable} / take / status, scripted connect / is_valid / has_broken outcome tables, enabled schedule points, strategy) run under one seeded schedule in which every blocking job (creation, interact closure, recycle check, destructor) is a separately scheduled worker; distinct = distinct hash of the per-run sequence (actor, stop site / pending / boundary, env decision); non-trivial = at least one connection entered the dead set and a later get happened, or two clients' operations overlapped with at least one context switch",
    }
}

fn real_vs_stub() -> serde_json::Value {
    json!({
        "real": [
            "deadpool::managed::Pool (get, timeout_get, return, Object::take, status)",
            "deadpool_sync::SyncWrapper (new, interact, try_lock, is_mutex_poisoned, Drop)",
            "deadpool_sqlite::Manager (create, recycle) on real rusqlite :memory: connections (system libsqlite3)",
            "deadpool_r2d2::Manager (create, recycle)",
            "deadpool_diesel::Manager<SqliteConnection> (create, recycle, RecyclingMethod Fast / Verified / CustomQuery / CustomFunction) on real diesel :memory: connections and diesel's AnsiTransactionManager",
            "deadpool_runtime::Runtime::spawn_blocking / spawn_blocking_background dispatch up to the guarded seam",
            "tokio::sync::Semaphore"
        ],
        "simulated": [
            "tokio's blocking thread pool (each job = one worker virtual thread started at an arbitrary later step)",
            "OS thread scheduling (coroutines + seeded controller)",
            "the r2d2::ManageConnection (scripted connections with serial numbers, scripted connect / is_valid / has_broken outcomes)",
            "cancellation of get / interact futures (controller decision at a pending poll)"
        ],
        "not_exercised": ["async-std runtime branch", "diesel mysql / postgres backends", "file backed sqlite databases", "pool timeouts other than the non-blocking wait of the capacity probe", "resize / retain / close"]
    })
}

fn assumptions() -> Vec<String> {
    vec![
        "interleavings are sequentially consistent and preempt only at the guarded schedule points, at awaits, at mutex acquisitions of the pool and of the SyncWrapper, at the start of every blocking job and at the harness' closure points; calls into SQLite and tokio::sync::Semaphore are atomic steps".into(),
        "bounded exploration by seeded sampling: a clean batch is evidence within the stated bounds, not proof".into(),
        "connection identity is read by the harness through SyncWrapper::try_lock (PRAGMA user_version for sqlite and diesel, serial field for r2d2) at every hand-out; the dead set is the harness ledger, never the pool's counters".into(),
        "a connection that dies while a get is in flight (late closure of a cancelled interact) is judged at its next hand-out".into(),
    ]
}

fn check(id: &str, args: &[String]) -> i32 {
    if id != "C15" {
        eprintln!("harness error: unknown property {id}");
        return 2;
    }
    let tier = arg_val(args, "--tier")
        .or_else(|| std::env::var("VERIF_TIER").ok())
        .unwrap_or_else(|| "quick".into());
    let thorough = tier == "thorough";
    let seed: u64 = std::env::var("VERIF_SEED").ok().and_then(|s| s.parse().ok()).unwrap_or(20260926);
    let m = meta();
    let secs = arg_val(args, "--secs")
        .and_then(|s| s.parse().ok())
        .unwrap_or(if thorough { m.thorough_secs } else { m.quick_secs });
    let max_runs = arg_val(args, "--runs").and_then(|s| s.parse().ok()).unwrap_or(u64::MAX / 4);
    let workers = arg_val(args, "--workers")
        .and_then(|s| s.parse().ok())
        .unwrap_or_else(|| std::thread::available_parallelism().map(|n| n.get()).unwrap_or(4));
    let vd = verif_dir();
    let known = load_known(&vd.join("known_findings.json"));
    let cfg = BatchCfg {
        profile: id.to_string(),
        seed,
        thorough,
        max_runs,
        secs,
        workers,
        known,
        corpus_dir: Some(vd.join("corpus").join(id)),
    };
    let h = bworld::Backends;
    let r = run_batch(&h, &cfg);
    finish(&h, id, &tier, seed, &m, r, real_vs_stub(), assumptions())
}

fn replay(path: &str, quiet: bool) -> i32 {
    let txt = match std::fs::read_to_string(path) {
        Ok(t) => t,
        Err(e) => {
            eprintln!("harness error: cannot read {path}: {e}");
            return 2;
        }
    };
    let v: serde_json::Value = match serde_json::from_str(&txt) {
        Ok(v) => v,
        Err(e) => {
            eprintln!("harness error: {e}");
            return 2;
        }
    };
    match v["harness"].as_str().unwrap_or("") {
        "dsim-backends" => {
            let rf: ReplayFile<bworld::BScenario> = match serde_json::from_value(v) {
                Ok(r) => r,
                Err(e) => {
                    eprintln!("harness error: {e}");
                    return 2;
                }
            };
            do_replay(&bworld::Backends, &rf, path, quiet)
        }
        other => {
            eprintln!("harness error: unknown harness {other:?} in replay file");
            2
        }
    }
}

/// Determinism proof on a sample: every seed is run twice (second time on a
/// different worker) and replayed from its own decision list; the event-log hashes,
/// decisions and verdicts must agree.
fn selfcheck(id: &str, args: &[String]) -> i32 {
    if id != "C15" {
        eprintln!("harness error: unknown property {id}");
        return 2;
    }
    let runs: u64 = arg_val(args, "--runs").and_then(|s| s.parse().ok()).unwrap_or(10_000);
    let seed: u64 = std::env::var("VERIF_SEED").ok().and_then(|s| s.parse().ok()).unwrap_or(20260926);
    let r = selfcheck_with(&bworld::Backends, id, seed, runs);
    if r == 0 {
        println!("selfcheck {id}: {runs} seeds x 2 runs (different workers, fresh replays) identical");
    }
    r
}

fn selfcheck_with<H: Harness>(h: &H, id: &str, seed: u64, runs: u64) -> i32 {
    use std::sync::atomic::{AtomicU64, Ordering};
    let workers = 16usize;
    let pass = |nw: usize, reverse: bool| -> Vec<(u64, usize, Option<String>)> {
        let out = std::sync::Mutex::new(vec![(0u64, 0usize, None); runs as usize]);
        let next = AtomicU64::new(0);
        std::thread::scope(|s| {
            for _ in 0..nw {
                let _ = s.spawn(|| loop {
                    let k = next.fetch_add(1, Ordering::SeqCst);
                    if k >= runs {
                        break;
                    }
                    let i = if reverse { runs - 1 - k } else { k };
                    let mut rng = rng::Rng::new(rng::mix(&[seed, 0x5e1f, i]));
                    let sc = h.generate(&mut rng, id, i % 2 == 0);
                    let o = h.run(&sc, None, false);
                    let o2 = h.run(&sc, Some(o.decisions.clone()), false);
                    let mut sig = o.violation.as_ref().map(|v| v.signature());
                    if o2.log_hash != o.log_hash || o2.diverged.is_some() {
                        sig = Some(format!("REPLAY-MISMATCH {:?}", o2.diverged));
                    }
                    out.lock().unwrap()[i as usize] = (o.log_hash, o.decisions.len(), sig);
                });
            }
        });
        out.into_inner().unwrap()
    };
    let a = pass(workers, false);
    let b = pass(5, true);
    let mut bad = 0;
    for i in 0..runs as usize {
        if a[i] != b[i] || a[i].2.as_deref().map(|s| s.starts_with("REPLAY-MISMATCH")).unwrap_or(false) {
            if bad < 5 {
                eprintln!("selfcheck: run {i} differs: {:?} vs {:?}", a[i], b[i]);
            }
            bad += 1;
        }
    }
    if bad > 0 {
        eprintln!("harness error: {bad} of {runs} runs are not deterministic");
        return 2;
    }
    0
}

/// SQLite keeps allocation statistics under one process-wide mutex; with one simulation per core
/// that mutex is the bottleneck. Statistics are switched off before the library initialises
/// (process-wide configuration of the library, no behavioural change for connections).
fn configure_sqlite() {
    // SAFETY: called once, before any SQLite call of this process.
    let rc = unsafe { rusqlite::ffi::sqlite3_config(rusqlite::ffi::SQLITE_CONFIG_MEMSTATUS, 0i32) };
    if rc != rusqlite::ffi::SQLITE_OK {
        eprintln!("note: sqlite3_config(MEMSTATUS, 0) returned {rc}");
    }
}

/// Prints scenario and full trace of seeded run `index` (the scenario `check` evaluates as run i).
fn show(id: &str, index: u64, thorough: bool) -> i32 {
    let seed: u64 = std::env::var("VERIF_SEED").ok().and_then(|s| s.parse().ok()).unwrap_or(20260926);
    let mut ph = rng::Hasher::default();
    ph.str(id);
    let mut r = rng::Rng::new(rng::mix(&[seed, ph.0, index]));
    let h = bworld::Backends;
    let sc = h.generate(&mut r, id, thorough);
    println!("shape: {}", h.shape(&sc));
    let o = h.run(&sc, None, true);
    for l in &o.trace {
        println!("{l}");
    }
    println!("faults: {:?}", o.faults);
    println!("probes: {:?}", o.probes);
    println!("steps={} switches={} nontrivial={} violation={:?}", o.steps, o.switches, o.nontrivial, o.violation);
    0
}

fn main() {
    configure_sqlite();
    let args: Vec<String> = std::env::args().collect();
    let code = match args.get(1).map(|s| s.as_str()) {
        Some("check") if args.len() >= 3 => check(&args[2], &args[3..]),
        Some("replay") if args.len() >= 3 => replay(&args[2], args.iter().any(|a| a == "--quiet")),
        Some("selfcheck") if args.len() >= 3 => selfcheck(&args[2], &args[3..]),
        Some("show") if args.len() >= 4 => show(&args[2], args[3].parse().unwrap_or(0), args.iter().any(|a| a == "--thorough")),
        _ => {
            eprintln!("usage: dsim-backends check C15 [--tier quick|thorough] [--secs S] [--runs N] [--workers N] | replay <file> [--quiet] | selfcheck C15 [--runs N]");
            2
        }
    };
    std::process::exit(code);
}
