//! E1 engine: virtual threads (stackful coroutines) + a controller that owns
//! every scheduling decision, the virtual clock, cancellation and spurious polls.
//!
//! Exactly one of {controller, one actor} runs at any time on the worker's OS
//! thread, so a run is a pure function of (scenario, decision list).

use std::{
    any::Any,
    cell::{Cell, RefCell},
    collections::BTreeSet,
    future::Future,
    panic::{catch_unwind, AssertUnwindSafe},
    pin::Pin,
    sync::{
        atomic::{AtomicBool, Ordering},
        Arc, Once,
    },
    task::{Context, Poll, Wake, Waker},
    time::Duration,
};

use corosensei::{stack::DefaultStack, Coroutine, CoroutineResult, Yielder};
use serde::{Deserialize, Serialize};

use simcore::rng::{Hasher, Rng};

pub const CONTROLLER: usize = usize::MAX;

/// All schedule-point sites known to the harness. Order is fixed: indices are
/// used in evidence and scenario files refer to sites by name.
pub const SITES: &[&str] = &[
    "managed.get.enter",
    "managed.get.permit",
    "managed.get.loop",
    "managed.get.pre_disarm",
    "managed.get.pre_forget",
    "managed.get.post_forget",
    "managed.recycle.enter",
    "managed.recycle.pre_post_hooks",
    "managed.recycle.pre_metrics",
    "managed.create.pre_size",
    "managed.create.post_size",
    "managed.unready_drop.enter",
    "managed.unready_drop.pre_detach",
    "managed.take.enter",
    "managed.object_drop.enter",
    "managed.return.post_users",
    "managed.return.pre_add_permits",
    "managed.return.pre_detach",
    "managed.detach.post_users",
    "managed.detach.pre_add_permits",
    "managed.detach.pre_detach",
    "managed.resize.enter",
    "managed.resize.post_closed_check",
    "managed.resize.shrink_loop",
    "managed.retain.enter",
    "managed.retain.post_status",
    "managed.close.pre_sem_close",
    "unmanaged.take.enter",
    "unmanaged.take.pre_add_permits",
    "unmanaged.take.post_add_permits",
    "unmanaged.object_drop.enter",
    "unmanaged.object_drop.post_push",
    "unmanaged.object_drop.pre_add_permits",
    "unmanaged.object_drop.pre_clean_up",
    "unmanaged.get.permit",
    "unmanaged.get.pre_forget",
    "unmanaged.get.pre_available",
    "unmanaged.get.post_available",
    "unmanaged.add.permit",
    "unmanaged.add.post_forget",
    "unmanaged._add.post_size",
    "unmanaged._add.post_push",
    "unmanaged._add.pre_add_permits",
    "unmanaged._add.post_add_permits",
    "unmanaged.close.enter",
    "unmanaged.close.post_sem_close",
    "unmanaged.close.pre_clear",
    "unmanaged.clean_up.pre_clear",
    // every operation on the pools' mutex / semaphores (cfg-gated shim types in deadpool)
    "sync.mutex.pre_lock",
    "sync.mutex.post_unlock",
    "sync.sem.pre_acquire",
    "sync.sem.post_acquire",
    "sync.sem.pre_try_acquire",
    "sync.sem.post_try_acquire",
    "sync.sem.pre_add_permits",
    "sync.sem.post_add_permits",
    "sync.sem.pre_close",
    "sync.sem.post_close",
    // lock points of deadpool-sync (logged when passed = the mutex is acquired right after)
    "sync.interact.lock",
    "sync.drop.lock",
    // reference count of the SyncWrapper's shared state (cfg-gated Arc shim in deadpool-sync)
    "sync.arc.post_count",
    "sync.arc.post_clone",
    "sync.arc.pre_drop",
    // harness-owned sites (inside closures / callbacks supplied by the harness)
    "harness.closure.begin",
    "harness.closure.mid",
    "harness.closure.end",
    "harness.dtor",
    // inside the retain() predicate (the pool holds its lock there)
    "harness.pred",
    // deadpool-postgres statement cache and cache registry (cfg-gated shim lock types)
    "pg.cache.pre_read",
    "pg.cache.pre_write",
    "pg.cache.post_unlock",
    "pg.cache.size.load",
    "pg.cache.size.store",
    "pg.cache.size.sub",
    "pg.cache.size.add",
    "pg.caches.pre_lock",
    "pg.caches.post_unlock",
    // every access to the pools' counters (cfg-gated shim atomics in deadpool)
    "sync.atomic.pre_load",
    "sync.atomic.pre_store",
    "sync.atomic.pre_rmw",
    // destructor of an item of the unmanaged pool (may run inside clear(), under the pool's lock)
    "harness.udtor",
];

/// Sites that lie inside a lock region of the code under test.
/// (semaphore operations are performed under the slots lock by resize / close / return)
pub const SITES_IN_LOCK: &[&str] = &[
    "managed.resize.shrink_loop",
    "sync.sem.pre_try_acquire",
    "sync.sem.post_try_acquire",
    "sync.sem.pre_add_permits",
    "sync.sem.post_add_permits",
    "sync.sem.pre_close",
    "sync.sem.post_close",
    "harness.pred",
];

pub fn site_index(name: &str) -> Option<usize> {
    SITES.iter().position(|s| *s == name)
}

#[derive(Clone, Copy, Debug, PartialEq, Eq)]
pub enum Yield {
    Point(&'static str),
    LockBusy(&'static str),
    Pending,
    Boundary,
}

#[derive(Clone, Copy, Debug, PartialEq, Eq)]
pub enum Resume {
    Go,
    Cancel,
}

pub use simcore::{Decision, Violation};

pub struct ActorWaker {
    pub flag: AtomicBool,
    pub actor: usize,
}

impl Wake for ActorWaker {
    fn wake(self: Arc<Self>) {
        self.wake_by_ref()
    }
    fn wake_by_ref(self: &Arc<Self>) {
        self.flag.store(true, Ordering::SeqCst);
        note_wake(self.actor);
    }
}

type Co = Coroutine<Resume, Yield, (), DefaultStack>;

#[derive(Clone, Copy, Debug, PartialEq, Eq)]
pub enum AState {
    /// not started, at a point or at an op boundary
    Ready,
    LockBusy(u64),
    Pending,
    Done,
}

struct Tls {
    active: bool,
    cur: usize,
    yielders: Vec<*const Yielder<Resume, Yield>>,
    site_enabled: Vec<bool>,
    site_hits: Vec<u64>,
    site_yields: Vec<u64>,
    /// last site each actor passed (logged even when the site is disabled)
    last_site: Vec<Option<&'static str>>,
    /// pool mutexes (shim type) currently held by each actor
    held_locks: Vec<u32>,
    wakers: Vec<Arc<ActorWaker>>,
    hasher: Hasher,
    trace_on: bool,
    trace: Vec<String>,
    step: u64,
    wake_log: Vec<(u64, usize, usize)>, // (step, woken actor, by actor)
    site_log: Vec<(u64, usize, u16)>,   // (step, actor, site index)
    pending_counts: Vec<u32>,           // per actor: polls that returned Pending
    last_panic: Option<String>,
    blocking_active: bool,
    spawned_jobs: Vec<deadpool_runtime::verif::Job>,
    stacks: Vec<DefaultStack>,
    stack_size: usize,
}

thread_local! {
    static TLS: RefCell<Tls> = RefCell::new(Tls {
        active: false,
        cur: CONTROLLER,
        yielders: Vec::new(),
        site_enabled: vec![false; SITES.len()],
        site_hits: vec![0; SITES.len()],
        site_yields: vec![0; SITES.len()],
        last_site: Vec::new(),
        held_locks: Vec::new(),
        wakers: Vec::new(),
        hasher: Hasher::default(),
        trace_on: false,
        trace: Vec::new(),
        step: 0,
        wake_log: Vec::new(),
        site_log: Vec::new(),
        pending_counts: Vec::new(),
        last_panic: None,
        blocking_active: false,
        spawned_jobs: Vec::new(),
        stacks: Vec::new(),
        stack_size: 256 * 1024,
    });
    static QUIET: Cell<bool> = const { Cell::new(false) };
    /// >0 while harness-internal code runs (world borrowed): schedule points must not yield
    static SUPPRESS: Cell<u32> = const { Cell::new(0) };
}

/// Runs harness-internal code (ledger access, oracle-side pool calls such as status() or the
/// snapshot accessor) during which no schedule point may yield.
pub fn no_yield<R>(f: impl FnOnce() -> R) -> R {
    struct G;
    impl Drop for G {
        fn drop(&mut self) {
            SUPPRESS.with(|s| s.set(s.get() - 1));
        }
    }
    SUPPRESS.with(|s| s.set(s.get() + 1));
    let _g = G;
    f()
}

fn suppressed() -> bool {
    SUPPRESS.with(|s| s.get() > 0)
}

fn tls<R>(f: impl FnOnce(&mut Tls) -> R) -> R {
    TLS.with(|t| f(&mut t.borrow_mut()))
}

/// Marker payload of panics injected by the harness.
#[derive(Debug, Clone, Copy, PartialEq, Eq)]
pub struct InjectedPanic(pub u32);

static INSTALL: Once = Once::new();

/// Installs the process-global hook table and the quiet panic hook.
pub fn install_hooks() {
    INSTALL.call_once(|| {
        let ok = deadpool_runtime::verif::install(deadpool_runtime::verif::Hooks {
            point: hook_point,
            lock_point: hook_lock_point,
            blocking_active: hook_blocking_active,
            run_blocking: hook_run_blocking,
        });
        assert!(ok, "verif hooks already installed");
        deadpool_runtime::verif::set_physical_cpus(4);
        let default = std::panic::take_hook();
        std::panic::set_hook(Box::new(move |info| {
            if QUIET.with(|q| q.get()) && std::env::var_os("DSIM_LOUD").is_none() {
                let loc = info
                    .location()
                    .map(|l| format!("{}:{}", l.file(), l.line()))
                    .unwrap_or_default();
                let msg = if let Some(s) = info.payload().downcast_ref::<&str>() {
                    s.to_string()
                } else if let Some(s) = info.payload().downcast_ref::<String>() {
                    s.clone()
                } else if info.payload().downcast_ref::<InjectedPanic>().is_some() {
                    "<injected>".to_string()
                } else {
                    "<non-string payload>".to_string()
                };
                // try_with: never panic inside the hook
                let _ = TLS.try_with(|t| {
                    if let Ok(mut t) = t.try_borrow_mut() {
                        t.last_panic = Some(format!("{} at {}", msg, loc));
                    }
                });
            } else {
                default(info)
            }
        }));
    });
}

fn hook_point(site: &'static str) {
    point(site)
}

/// Schedule point (also callable from harness-owned closures).
pub fn point(site: &'static str) {
    if suppressed() {
        return;
    }
    let do_yield = TLS.with(|t| {
        let mut t = match t.try_borrow_mut() {
            Ok(t) => t,
            Err(_) => return false,
        };
        if !t.active || t.cur == CONTROLLER {
            return false;
        }
        let idx = match site_index(site) {
            Some(i) => i,
            None => return false,
        };
        t.site_hits[idx] += 1;
        let cur = t.cur;
        if site == "sync.mutex.post_unlock" {
            t.held_locks[cur] = t.held_locks[cur].saturating_sub(1);
        }
        // a counter update inside a critical section is not a preemption point of its own:
        // whoever needs the lock cannot run anyway, and the rest is covered by the lock sites
        if t.held_locks[cur] > 0 && site.starts_with("sync.atomic.") {
            return false;
        }
        t.last_site[cur] = Some(site);
        let step = t.step;
        t.site_log.push((step, cur, idx as u16));
        if std::thread::panicking() {
            return false;
        }
        if t.site_enabled[idx] {
            t.site_yields[idx] += 1;
            true
        } else {
            false
        }
    });
    if do_yield {
        let r = suspend(Yield::Point(site));
        debug_assert_eq!(r, Resume::Go);
    }
}

fn hook_lock_point(site: &'static str, would_block: &dyn Fn() -> bool) {
    let (active, cur) = tls(|t| (t.active, t.cur));
    if !active {
        return;
    }
    // The hand-placed lock points of the pools date from before their mutex was a shim type
    // that announces every lock() itself ("sync.mutex.lock"). Waiting here as well would make
    // the lock look free to whatever follows - also to a try_lock() a change puts there.
    if site.starts_with("managed.") || site.starts_with("unmanaged.") {
        return;
    }
    while would_block() {
        if cur == CONTROLLER || suppressed() {
            if std::env::var_os("DSIM_BT").is_some() {
                eprintln!("controller lock backtrace:\n{}", std::backtrace::Backtrace::force_capture());
            }
            panic!("harness error: controller would block on a lock at {site}");
        }
        let r = suspend(Yield::LockBusy(site));
        debug_assert_eq!(r, Resume::Go);
    }
    // passed: the lock is free and is taken right after (no yield in between)
    if cur != CONTROLLER && !suppressed() {
        if site == "sync.mutex.lock" {
            tls(|t| {
                if let Some(h) = t.held_locks.get_mut(cur) {
                    *h += 1;
                }
            });
        }
        if let Some(idx) = site_index(site) {
            tls(|t| {
                let step = t.step;
                t.site_log.push((step, cur, idx as u16));
            });
        }
    }
}

fn hook_blocking_active() -> bool {
    tls(|t| t.active && t.blocking_active)
}

fn hook_run_blocking(job: deadpool_runtime::verif::Job) {
    tls(|t| t.spawned_jobs.push(job));
}

/// Jobs handed to the simulated blocking pool since the last call.
pub fn take_spawned_jobs() -> Vec<deadpool_runtime::verif::Job> {
    tls(|t| std::mem::take(&mut t.spawned_jobs))
}

pub fn set_blocking_seam(on: bool) {
    tls(|t| t.blocking_active = on);
}

fn note_wake(actor: usize) {
    let _ = TLS.try_with(|t| {
        if let Ok(mut t) = t.try_borrow_mut() {
            if t.active {
                let (s, c) = (t.step, t.cur);
                t.wake_log.push((s, actor, c));
            }
        }
    });
}

/// Suspends the current actor.
pub fn suspend(y: Yield) -> Resume {
    let p = tls(|t| {
        assert!(t.cur != CONTROLLER, "suspend called from the controller");
        t.yielders[t.cur]
    });
    // SAFETY: the yielder lives on the coroutine's own stack for as long as the
    // coroutine body runs, and we are inside that body.
    unsafe { (*p).suspend(y) }
}

pub fn current_actor() -> usize {
    tls(|t| t.cur)
}

pub fn current_step() -> u64 {
    tls(|t| t.step)
}

pub fn last_site(actor: usize) -> Option<&'static str> {
    tls(|t| t.last_site.get(actor).copied().flatten())
}

pub fn clear_last_site(actor: usize) {
    tls(|t| {
        if let Some(s) = t.last_site.get_mut(actor) {
            *s = None
        }
    })
}

pub fn log_event(parts: &[u64]) {
    tls(|t| {
        for p in parts {
            t.hasher.u64(*p);
        }
    })
}

pub fn log_str(s: &str) {
    tls(|t| t.hasher.str(s))
}

pub fn trace_on() -> bool {
    tls(|t| t.trace_on)
}

pub fn trace_push(s: String) {
    tls(|t| {
        if t.trace_on {
            let line = format!("[{:>4}] {}", t.step, s);
            t.trace.push(line);
        }
    })
}

#[macro_export]
macro_rules! trace {
    ($($arg:tt)*) => {
        if $crate::engine::trace_on() {
            $crate::engine::trace_push(format!($($arg)*));
        }
    };
}

pub fn take_last_panic() -> Option<String> {
    tls(|t| t.last_panic.take())
}

pub fn wakes_since(idx: usize) -> Vec<(u64, usize, usize)> {
    tls(|t| t.wake_log[idx.min(t.wake_log.len())..].to_vec())
}

pub fn site_log_since(idx: usize) -> Vec<(u64, usize, u16)> {
    tls(|t| t.site_log[idx.min(t.site_log.len())..].to_vec())
}

/// Number of polls of this actor that returned Pending so far.
pub fn pending_count(actor: usize) -> u32 {
    tls(|t| t.pending_counts.get(actor).copied().unwrap_or(0))
}

pub fn site_log_len() -> usize {
    tls(|t| t.site_log.len())
}

pub fn wake_log_len() -> usize {
    tls(|t| t.wake_log.len())
}

pub fn site_counters() -> (Vec<u64>, Vec<u64>) {
    tls(|t| (t.site_hits.clone(), t.site_yields.clone()))
}

/// Result of driving a future inside an actor.
pub enum PollEnd<T> {
    Ready(T),
    Cancelled,
    Panicked(Box<dyn Any + Send>),
}

/// Number of polls that returned Pending for the last `drive` of this actor.
#[derive(Default, Clone, Copy, Debug)]
pub struct DriveStats {
    pub polls: u32,
    pub pendings: u32,
}

/// Polls `fut` to completion inside the current actor, yielding `Pending` to
/// the controller whenever the future is not ready. The controller may answer
/// with `Cancel`, in which case the future is dropped right there.
pub fn drive<F: Future>(fut: F, stats: &mut DriveStats) -> PollEnd<F::Output> {
    let mut fut: Pin<Box<F>> = Box::pin(fut);
    let (waker_arc, waker) = tls(|t| {
        let w = t.wakers[t.cur].clone();
        (w.clone(), Waker::from(w))
    });
    let mut cx = Context::from_waker(&waker);
    loop {
        waker_arc.flag.store(false, Ordering::SeqCst);
        stats.polls += 1;
        let r = catch_unwind(AssertUnwindSafe(|| fut.as_mut().poll(&mut cx)));
        match r {
            Ok(Poll::Ready(v)) => return PollEnd::Ready(v),
            Ok(Poll::Pending) => {
                stats.pendings += 1;
                tls(|t| {
                    let c = t.cur;
                    t.pending_counts[c] += 1;
                });
                match suspend(Yield::Pending) {
                    Resume::Go => continue,
                    Resume::Cancel => {
                        // abandonment at exactly this suspension point
                        let r = catch_unwind(AssertUnwindSafe(move || drop(fut)));
                        return match r {
                            Ok(()) => PollEnd::Cancelled,
                            Err(p) => PollEnd::Panicked(p),
                        };
                    }
                }
            }
            Err(p) => {
                let r = catch_unwind(AssertUnwindSafe(move || drop(fut)));
                return match r {
                    Ok(()) => PollEnd::Panicked(p),
                    Err(p2) => PollEnd::Panicked(p2),
                };
            }
        }
    }
}

/// Polls a future exactly once on the controller's stack (used by probes).
pub fn poll_once<F: Future>(fut: Pin<&mut F>) -> Poll<F::Output> {
    struct Noop;
    impl Wake for Noop {
        fn wake(self: Arc<Self>) {}
    }
    let waker = Waker::from(Arc::new(Noop));
    let mut cx = Context::from_waker(&waker);
    fut.poll(&mut cx)
}

/// Marks the boundary between two operations of an actor script.
pub fn op_boundary() {
    let _ = suspend(Yield::Boundary);
}

// ---------------------------------------------------------------------------
// virtual clock
// ---------------------------------------------------------------------------

pub struct Clock {
    rt: tokio::runtime::Runtime,
    pub now_ms: u64,
    pub advanced_total_ms: u64,
}

thread_local! {
    static CLOCK_CAND: RefCell<BTreeSet<u64>> = const { RefCell::new(BTreeSet::new()) };
    static CLOCK_NOW: Cell<u64> = const { Cell::new(0) };
    /// while a run is active on this thread the monotonic clock of the whole process reads the
    /// simulated time (see `clock_gettime` below)
    static VCLOCK_ON: Cell<bool> = const { Cell::new(false) };
}

/// The last clock seam: `std::time::Instant::now()` ends in libc's `clock_gettime`. Defining the
/// symbol here makes every monotonic clock read of the process - also one that a change to the
/// code under test introduces behind the guarded `Instant` imports - go through this function:
/// on a thread that is executing a run it reads the simulated clock (a fixed origin plus the
/// virtual milliseconds the controller has let pass), everywhere else the real clock.
#[cfg_attr(not(vclock_off), no_mangle)]
pub unsafe extern "C" fn clock_gettime(clk: libc::clockid_t, ts: *mut libc::timespec) -> libc::c_int {
    // the C library's own implementation (vDSO fast path), looked up once; the raw system call
    // until then
    static REAL: std::sync::atomic::AtomicUsize = std::sync::atomic::AtomicUsize::new(0);
    let mut f = REAL.load(std::sync::atomic::Ordering::Relaxed);
    if f == 0 {
        let p = libc::dlsym(libc::RTLD_NEXT, c"clock_gettime".as_ptr());
        f = if p.is_null() { 1 } else { p as usize };
        REAL.store(f, std::sync::atomic::Ordering::Relaxed);
    }
    let r = if f > 1 {
        let real: unsafe extern "C" fn(libc::clockid_t, *mut libc::timespec) -> libc::c_int = std::mem::transmute(f);
        real(clk, ts)
    } else {
        libc::syscall(libc::SYS_clock_gettime, clk, ts) as libc::c_int
    };
    if r == 0 && (clk == libc::CLOCK_MONOTONIC || clk == libc::CLOCK_MONOTONIC_RAW || clk == libc::CLOCK_BOOTTIME) {
        let on = VCLOCK_ON.try_with(|v| v.get()).unwrap_or(false);
        if on {
            let ms = CLOCK_NOW.try_with(|n| n.get()).unwrap_or(0);
            // origin: 10^6 s, far from zero so that `Instant - Duration` keeps working
            (*ts).tv_sec = 1_000_000 + (ms / 1000) as libc::time_t;
            (*ts).tv_nsec = ((ms % 1000) * 1_000_000) as libc::c_long;
        }
    }
    r
}

/// Registers `now + ms` as an instant at which something may happen.
pub fn register_deadline(ms: u64) {
    let now = CLOCK_NOW.with(|n| n.get());
    CLOCK_CAND.with(|c| {
        // a deadline beyond any run (e.g. Duration::MAX) is never a candidate instant
        if ms < 1 << 40 {
            let _ = c.borrow_mut().insert(now + ms);
        }
    });
}

pub fn now_ms() -> u64 {
    CLOCK_NOW.with(|n| n.get())
}

impl Clock {
    pub fn new() -> Self {
        let rt = tokio::runtime::Builder::new_current_thread()
            .enable_time()
            .start_paused(true)
            .build()
            .expect("tokio runtime");
        CLOCK_CAND.with(|c| c.borrow_mut().clear());
        CLOCK_NOW.with(|n| n.set(0));
        Clock {
            rt,
            now_ms: 0,
            advanced_total_ms: 0,
        }
    }
    pub fn handle(&self) -> tokio::runtime::Handle {
        self.rt.handle().clone()
    }
    pub fn next_candidate(&self) -> Option<u64> {
        let now = self.now_ms;
        CLOCK_CAND.with(|c| c.borrow().range(now + 1..).next().copied())
    }
    /// Jumps to the next candidate instant. Returns the new time.
    pub fn advance_to_next(&mut self) -> Option<u64> {
        let next = self.next_candidate()?;
        let delta = next - self.now_ms;
        self.advance_by(delta);
        Some(next)
    }
    pub fn advance_by(&mut self, delta: u64) {
        self.rt
            .block_on(async { tokio::time::advance(Duration::from_millis(delta)).await });
        self.now_ms += delta;
        self.advanced_total_ms += delta;
        CLOCK_NOW.with(|n| n.set(self.now_ms));
        let now = self.now_ms;
        CLOCK_CAND.with(|c| {
            let mut c = c.borrow_mut();
            let keep = c.split_off(&(now + 1));
            *c = keep;
        });
    }
    pub fn metrics_tasks(&self) -> usize {
        self.rt.metrics().num_alive_tasks()
    }
}

// ---------------------------------------------------------------------------
// controller
// ---------------------------------------------------------------------------

#[derive(Clone, Debug, Serialize, Deserialize, PartialEq, Eq)]
pub struct Knobs {
    /// names of the sites at which actors yield in this run
    pub sites: Vec<String>,
    /// 0 = uniform random, 1 = sticky random, 2 = PCT
    pub strategy: u8,
    /// permille probability of continuing with the current actor (sticky)
    pub stick: u32,
    /// PCT: number of priority change points
    pub pct_depth: u8,
    /// permille probability of an environment decision while actors are runnable
    pub p_env: u32,
    /// permille weight of a clock jump among environment decisions while actors are runnable
    pub p_time: u32,
    /// permille probability of a spurious poll being offered
    pub p_spurious: u32,
    /// permille probability of a controller-chosen cancellation being offered
    pub p_cancel: u32,
    pub step_cap: u32,
}

impl Default for Knobs {
    fn default() -> Self {
        Knobs {
            sites: Vec::new(),
            strategy: 0,
            stick: 0,
            pct_depth: 0,
            p_env: 200,
            p_time: 200,
            p_spurious: 0,
            p_cancel: 0,
            step_cap: 4000,
        }
    }
}

/// Violation stamped with the current simulation step.
pub fn violation(property: &str, clause: &str, detail: String) -> Violation {
    Violation::at(property, clause, detail, current_step())
}

/// What the world contributes to a run.
pub trait World {
    /// Number of scripted actors.
    fn actors(&self) -> usize;
    /// The body of actor `i` (runs on its own coroutine stack).
    fn actor_body(&mut self, i: usize) -> Box<dyn FnOnce()>;
    /// Gates that could be opened now.
    fn openable_gates(&mut self, out: &mut Vec<u32>);
    fn open_gate(&mut self, g: u32);
    /// Whether the controller may cancel the future actor `i` is pending on.
    fn cancellable(&mut self, actor: usize) -> bool;
    fn note_cancel(&mut self, _actor: usize) {}
    /// Called after every executed decision.
    fn after_step(&mut self, sim: &SimInfo) -> Option<Violation>;
    /// Called when no actor is runnable (before an environment decision is taken).
    fn quiescent(&mut self, sim: &SimInfo) -> Option<Violation>;
    /// Called after a clock jump.
    fn after_advance(&mut self, _now_ms: u64) {}
    /// Virtual milliseconds that pass whenever an actor reaches an operation boundary
    /// (0 = time only moves when the controller decides so).
    fn tick_at_boundary(&self) -> u64 {
        0
    }
    /// New worker actors to start (simulated blocking pool); called after every step.
    fn spawn_pending(&mut self) -> Vec<Box<dyn FnOnce()>> {
        Vec::new()
    }
}

pub struct SimInfo<'a> {
    pub step: u64,
    pub states: &'a [AState],
    pub now_ms: u64,
    pub last: Decision,
    pub last_yield: Option<Yield>,
    pub has_candidate_time: bool,
}

struct Actor {
    own_resumes: u64,
    co: Option<Co>,
    state: AState,
    waker: Arc<ActorWaker>,
    last_yield: Option<Yield>,
}

#[derive(Debug, Clone, PartialEq, Eq)]
pub enum RunEnd {
    /// every actor finished (or nothing can make progress any more)
    Finished,
    Violation(Violation),
    StepCap,
    /// replay mode only: the decision list did not fit the run
    Diverged(String),
    /// nothing can move although threads are blocked on a lock of the code under test
    Deadlock(String),
}

#[derive(Default, Clone, Debug)]
pub struct RunStats {
    pub steps: u64,
    pub switches: u64,
    pub advances: u64,
    pub cancels: u64,
    pub spurious: u64,
    pub gates_opened: u64,
    pub lock_busy: u64,
    pub jump_with_runnable: u64,
    pub interleaving_hash: u64,
    pub max_concurrent_inflight: u32,
    /// ordered pairs (where the preempted thread stood, where the thread switched to stood)
    pub switch_pairs: BTreeSet<u32>,
}

pub struct Sim {
    actors: Vec<Actor>,
    pub clock: Clock,
    rng: Rng,
    pub knobs: Knobs,
    pub decisions: Vec<Decision>,
    replay: Option<Vec<Decision>>,
    replay_pos: usize,
    progress: u64,
    last_actor: Option<usize>,
    pct_prio: Vec<u32>,
    pct_points: Vec<u64>,
    pub stats: RunStats,
    ileave: Hasher,
}

pub fn begin_run(knobs: &Knobs, n_actors_hint: usize, trace: bool, stack_size: usize) {
    install_hooks();
    CLOCK_NOW.with(|n| n.set(0));
    VCLOCK_ON.with(|v| v.set(true));
    QUIET.with(|q| q.set(true));
    tls(|t| {
        t.active = true;
        t.cur = CONTROLLER;
        t.yielders.clear();
        t.wakers.clear();
        t.last_site.clear();
        t.held_locks.clear();
        for e in t.site_enabled.iter_mut() {
            *e = false;
        }
        for s in &knobs.sites {
            if let Some(i) = site_index(s) {
                t.site_enabled[i] = true;
            }
        }
        t.hasher = Hasher::default();
        t.trace_on = trace;
        t.trace.clear();
        t.step = 0;
        t.wake_log.clear();
        t.site_log.clear();
        t.pending_counts.clear();
        t.last_panic = None;
        t.blocking_active = false;
        t.spawned_jobs.clear();
        if t.stack_size != stack_size {
            t.stacks.clear();
            t.stack_size = stack_size;
        }
        let _ = n_actors_hint;
    });
}

pub fn end_run() -> (u64, Vec<String>) {
    VCLOCK_ON.with(|v| v.set(false));
    QUIET.with(|q| q.set(false));
    tls(|t| {
        t.active = false;
        t.cur = CONTROLLER;
        t.spawned_jobs.clear();
        (t.hasher.0, std::mem::take(&mut t.trace))
    })
}

impl Sim {
    pub fn new(sched_seed: u64, knobs: Knobs, replay: Option<Vec<Decision>>) -> Self {
        Sim {
            actors: Vec::new(),
            clock: Clock::new(),
            rng: Rng::new(sched_seed),
            knobs,
            decisions: Vec::new(),
            replay,
            replay_pos: 0,
            progress: 0,
            last_actor: None,
            pct_prio: Vec::new(),
            pct_points: Vec::new(),
            stats: RunStats::default(),
            ileave: Hasher::default(),
        }
    }

    pub fn add_actor(&mut self, body: Box<dyn FnOnce()>) -> usize {
        let id = self.actors.len();
        let waker = Arc::new(ActorWaker {
            flag: AtomicBool::new(false),
            actor: id,
        });
        let stack = tls(|t| {
            t.yielders.push(std::ptr::null());
            t.pending_counts.push(0);
            t.wakers.push(waker.clone());
            t.last_site.push(None);
            t.held_locks.push(0);
            let sz = t.stack_size;
            t.stacks
                .pop()
                .unwrap_or_else(|| DefaultStack::new(sz).expect("stack"))
        });
        let co: Co = Coroutine::with_stack(stack, move |y: &Yielder<Resume, Yield>, _r: Resume| {
            tls(|t| t.yielders[id] = y as *const _);
            body();
        });
        self.actors.push(Actor {
            own_resumes: 0,
            co: Some(co),
            state: AState::Ready,
            waker,
            last_yield: None,
        });
        if self.knobs.strategy == 2 {
            let p = 1000 + self.pct_prio.len() as u32 * 7 + (self.rng.below(1000) as u32) * 16;
            self.pct_prio.push(p);
        }
        id
    }

    pub fn states(&self) -> Vec<AState> {
        self.actors.iter().map(|a| a.state).collect()
    }

    pub fn is_woken(&self, a: usize) -> bool {
        self.actors[a].waker.flag.load(Ordering::SeqCst)
    }

    fn runnable(&self, out: &mut Vec<usize>) {
        out.clear();
        for (i, a) in self.actors.iter().enumerate() {
            let ok = match a.state {
                AState::Ready => true,
                // blocked on a lock: runnable again once some *other* actor has moved
                AState::LockBusy(epoch) => self.progress > epoch,
                AState::Pending => a.waker.flag.load(Ordering::SeqCst),
                AState::Done => false,
            };
            if ok {
                out.push(i);
            }
        }
    }

    pub fn all_done(&self) -> bool {
        self.actors.iter().all(|a| a.state == AState::Done)
    }

    /// Resumes actor `i` once and records its new state.
    pub fn resume(&mut self, i: usize, r: Resume) -> Option<Yield> {
        let mut co = self.actors[i].co.take().expect("actor has no coroutine");
        tls(|t| t.cur = i);
        let res = co.resume(r);
        tls(|t| t.cur = CONTROLLER);
        self.actors[i].own_resumes += 1;
        // `progress` counts steps that did something other than spinning on a lock
        if !matches!(res, CoroutineResult::Yield(Yield::LockBusy(_))) {
            self.progress += 1;
        }
        if self.last_actor != Some(i) && self.last_actor.is_some() {
            self.stats.switches += 1;
            let from = self.stop_code(self.last_actor.unwrap());
            let to = self.stop_code(i);
            let _ = self.stats.switch_pairs.insert(((from as u32) << 16) | to as u32);
        }
        self.last_actor = Some(i);
        match res {
            CoroutineResult::Yield(y) => {
                self.actors[i].state = match y {
                    Yield::Point(_) | Yield::Boundary => AState::Ready,
                    Yield::LockBusy(_) => {
                        self.stats.lock_busy += 1;
                        AState::LockBusy(self.progress)
                    }
                    Yield::Pending => AState::Pending,
                };
                self.actors[i].co = Some(co);
                self.actors[i].last_yield = Some(y);
                Some(y)
            }
            CoroutineResult::Return(()) => {
                self.actors[i].state = AState::Done;
                self.actors[i].last_yield = None;
                let stack = co.into_stack();
                tls(|t| t.stacks.push(stack));
                None
            }
        }
    }

    fn pick_actor(&mut self, runnable: &[usize]) -> usize {
        match self.knobs.strategy {
            1 => {
                if let Some(l) = self.last_actor {
                    if runnable.contains(&l) && self.rng.permille(self.knobs.stick) {
                        return l;
                    }
                }
                *self.rng.pick(runnable)
            }
            2 => {
                // PCT: highest priority runnable; at change points demote the running one
                while self.pct_prio.len() < self.actors.len() {
                    let p = 1000 + (self.rng.below(1000) as u32) * 16;
                    self.pct_prio.push(p);
                }
                let step = self.stats.steps;
                let best = *runnable
                    .iter()
                    .max_by_key(|a| (self.pct_prio[**a], usize::MAX - **a))
                    .unwrap();
                if self.pct_points.contains(&step) {
                    let low = self.pct_points.iter().position(|s| *s == step).unwrap() as u32;
                    self.pct_prio[best] = low;
                    return *runnable
                        .iter()
                        .max_by_key(|a| (self.pct_prio[**a], usize::MAX - **a))
                        .unwrap();
                }
                best
            }
            _ => *self.rng.pick(runnable),
        }
    }

    fn next_decision<W: World>(
        &mut self,
        world: &mut W,
        runnable: &[usize],
        gates: &[u32],
    ) -> Result<Option<Decision>, String> {
        if let Some(list) = &self.replay {
            if self.replay_pos >= list.len() {
                return Ok(None);
            }
            let d = list[self.replay_pos];
            self.replay_pos += 1;
            let ok = match d {
                Decision::Run(a) => runnable.contains(&a),
                Decision::Gate(g) => gates.contains(&g),
                Decision::Advance => self.clock.next_candidate().is_some(),
                Decision::Cancel(a) => {
                    a < self.actors.len() && self.actors[a].state == AState::Pending
                }
                Decision::Spurious(a) => {
                    a < self.actors.len() && self.actors[a].state == AState::Pending
                }
            };
            if !ok {
                return Err(format!(
                    "decision #{} {:?} not applicable (runnable {:?}, gates {:?})",
                    self.replay_pos - 1,
                    d,
                    runnable,
                    gates
                ));
            }
            return Ok(Some(d));
        }
        // environment candidates
        let mut env: Vec<(Decision, u32)> = Vec::new();
        for g in gates {
            env.push((Decision::Gate(*g), 100));
        }
        let has_time = self.clock.next_candidate().is_some();
        if has_time {
            let w = if runnable.is_empty() {
                // at quiescence time is one choice among gates and cancellations
                60
            } else {
                (self.knobs.p_time / 4).max(1)
            };
            if runnable.is_empty() || self.knobs.p_time > 0 {
                env.push((Decision::Advance, w));
            }
        }
        let mut pending: Vec<usize> = Vec::new();
        for (i, a) in self.actors.iter().enumerate() {
            if a.state == AState::Pending {
                pending.push(i);
            }
        }
        for i in &pending {
            if self.knobs.p_cancel > 0 && world.cancellable(*i) {
                // offered with the configured probability (draw consumed deterministically)
                if self.rng.permille(self.knobs.p_cancel) {
                    env.push((Decision::Cancel(*i), 40));
                }
            }
            if self.knobs.p_spurious > 0
                && !self.actors[*i].waker.flag.load(Ordering::SeqCst)
                && self.rng.permille(self.knobs.p_spurious)
            {
                env.push((Decision::Spurious(*i), 30));
            }
        }
        if runnable.is_empty() {
            if env.is_empty() {
                // last resort: cancellations the world allows
                for i in &pending {
                    if world.cancellable(*i) {
                        env.push((Decision::Cancel(*i), 10));
                    }
                }
            }
            if env.is_empty() {
                return Ok(None);
            }
            let ws: Vec<u32> = env.iter().map(|e| e.1).collect();
            return Ok(Some(env[self.rng.weighted(&ws)].0));
        }
        if !env.is_empty() && self.rng.permille(self.knobs.p_env) {
            let ws: Vec<u32> = env.iter().map(|e| e.1).collect();
            return Ok(Some(env[self.rng.weighted(&ws)].0));
        }
        Ok(Some(Decision::Run(self.pick_actor(runnable))))
    }

    /// Runs the main phase: until every actor is done, nothing can progress, a
    /// violation is found or the step cap is hit.
    pub fn run<W: World>(&mut self, world: &mut W) -> RunEnd {
        if self.knobs.strategy == 2 && self.replay.is_none() {
            for _ in 0..self.knobs.pct_depth {
                let p = self.rng.below(150) as u64;
                self.pct_points.push(p);
            }
        }
        let mut runnable = Vec::new();
        let mut gates = Vec::new();
        loop {
            if self.stats.steps >= self.knobs.step_cap as u64 {
                return RunEnd::StepCap;
            }
            for body in world.spawn_pending() {
                let _ = self.add_actor(body);
            }
            self.runnable(&mut runnable);
            gates.clear();
            world.openable_gates(&mut gates);
            if runnable.is_empty() {
                let states = self.states();
                let info = SimInfo {
                    step: self.stats.steps,
                    states: &states,
                    now_ms: self.clock.now_ms,
                    last: Decision::Advance,
                    last_yield: None,
                    has_candidate_time: self.clock.next_candidate().is_some(),
                };
                if let Some(v) = world.quiescent(&info) {
                    return RunEnd::Violation(v);
                }
            }
            let d = match self.next_decision(world, &runnable, &gates) {
                Ok(Some(d)) => d,
                Ok(None) => {
                    // nothing can be decided any more: threads still spinning on a lock will
                    // never get it (the holder is one of them, or gone)
                    if let Some(dl) = self.lock_blocked() {
                        return RunEnd::Deadlock(dl);
                    }
                    return RunEnd::Finished;
                }
                Err(e) => return RunEnd::Diverged(e),
            };
            if let Some(v) = self.execute(world, d, !runnable.is_empty()) {
                return RunEnd::Violation(v);
            }
        }
    }

    /// Executes one decision (also used by epilogues, which then record nothing).
    pub fn execute<W: World>(
        &mut self,
        world: &mut W,
        d: Decision,
        had_runnable: bool,
    ) -> Option<Violation> {
        self.decisions.push(d);
        self.stats.steps += 1;
        tls(|t| {
            t.step += 1;
            match d {
                Decision::Run(a) => {
                    t.hasher.u64(1);
                    t.hasher.u64(a as u64)
                }
                Decision::Gate(g) => {
                    t.hasher.u64(2);
                    t.hasher.u64(g as u64)
                }
                Decision::Advance => t.hasher.u64(3),
                Decision::Cancel(a) => {
                    t.hasher.u64(4);
                    t.hasher.u64(a as u64)
                }
                Decision::Spurious(a) => {
                    t.hasher.u64(5);
                    t.hasher.u64(a as u64)
                }
            }
        });
        let mut last_yield = None;
        match d {
            Decision::Run(a) => {
                last_yield = self.resume(a, Resume::Go);
            }
            Decision::Gate(g) => {
                self.stats.gates_opened += 1;
                trace!("env: open gate {}", g);
                world.open_gate(g);
            }
            Decision::Advance => {
                self.stats.advances += 1;
                if had_runnable {
                    self.stats.jump_with_runnable += 1;
                }
                let t = self.clock.advance_to_next();
                trace!("env: clock -> {:?} ms", t);
                world.after_advance(self.clock.now_ms);
            }
            Decision::Cancel(a) => {
                self.stats.cancels += 1;
                trace!("env: cancel actor {}", a);
                world.note_cancel(a);
                last_yield = self.resume(a, Resume::Cancel);
            }
            Decision::Spurious(a) => {
                self.stats.spurious += 1;
                trace!("env: spurious poll of actor {}", a);
                last_yield = self.resume(a, Resume::Go);
            }
        }
        if let Decision::Run(a) = d {
            trace!("sched: A{} -> {:?}", a, last_yield);
        }
        if let (Decision::Run(_), Some(Yield::Boundary)) = (d, last_yield) {
            let ms = world.tick_at_boundary();
            if ms > 0 {
                self.clock.advance_by(ms);
                world.after_advance(self.clock.now_ms);
            }
        }
        // interleaving fingerprint: who moved and where it stopped
        match d {
            Decision::Run(a) | Decision::Cancel(a) | Decision::Spurious(a) => {
                self.ileave.u64(a as u64 + 1);
                match last_yield {
                    Some(Yield::Point(s)) => self.ileave.str(s),
                    Some(Yield::LockBusy(s)) => {
                        self.ileave.u64(7);
                        self.ileave.str(s)
                    }
                    Some(Yield::Pending) => self.ileave.u64(8),
                    Some(Yield::Boundary) => self.ileave.u64(9),
                    None => self.ileave.u64(10),
                }
            }
            Decision::Gate(_) => self.ileave.u64(11),
            Decision::Advance => self.ileave.u64(12),
        }
        self.stats.interleaving_hash = self.ileave.0;
        tls(|t| {
            t.hasher.u64(match last_yield {
                Some(Yield::Point(_)) => 21,
                Some(Yield::LockBusy(_)) => 22,
                Some(Yield::Pending) => 23,
                Some(Yield::Boundary) => 24,
                None => 25,
            });
            if let Some(Yield::Point(s)) | Some(Yield::LockBusy(s)) = last_yield {
                t.hasher.str(s);
            }
        });
        let states = self.states();
        let info = SimInfo {
            step: self.stats.steps,
            states: &states,
            now_ms: self.clock.now_ms,
            last: d,
            last_yield,
            has_candidate_time: self.clock.next_candidate().is_some(),
        };
        world.after_step(&info)
    }

    /// Drives every actor that is not pending to its next pending/done state,
    /// lowest id first, without consulting the PRNG (used by epilogues).
    pub fn settle<W: World>(&mut self, world: &mut W, max_steps: u32) -> Result<(), Option<Violation>> {
        let mut runnable = Vec::new();
        for _ in 0..max_steps {
            for body in world.spawn_pending() {
                let _ = self.add_actor(body);
            }
            self.runnable(&mut runnable);
            if runnable.is_empty() {
                return Ok(());
            }
            let a = runnable[0];
            // rotate among runnable actors so that a LockBusy actor cannot starve the holder
            let a = if let AState::LockBusy(_) = self.actors[a].state {
                *runnable.iter().find(|x| !matches!(self.actors[**x].state, AState::LockBusy(_))).unwrap_or(&a)
            } else {
                a
            };
            if let Some(v) = self.execute(world, Decision::Run(a), true) {
                return Err(Some(v));
            }
        }
        Err(None)
    }

    /// Actors that wait for a lock although nobody can release it any more.
    pub fn lock_blocked(&self) -> Option<String> {
        let v: Vec<String> = self
            .actors
            .iter()
            .enumerate()
            .filter_map(|(i, a)| match (a.state, a.last_yield) {
                (AState::LockBusy(_), Some(Yield::LockBusy(site))) => Some(format!("thread {i} at {site}")),
                _ => None,
            })
            .collect();
        if v.is_empty() {
            None
        } else {
            Some(v.join(", "))
        }
    }

    /// Where an actor currently stands: site index, or a code for pending / boundary / other.
    fn stop_code(&self, a: usize) -> u16 {
        match self.actors[a].last_yield {
            Some(Yield::Point(s)) | Some(Yield::LockBusy(s)) => site_index(s).map(|i| i as u16).unwrap_or(0xfff0),
            Some(Yield::Pending) => 0xfffe,
            Some(Yield::Boundary) => 0xfffd,
            None => 0xfffc,
        }
    }

    pub fn pending_actors(&self) -> Vec<usize> {
        self.actors
            .iter()
            .enumerate()
            .filter(|(_, a)| a.state == AState::Pending)
            .map(|(i, _)| i)
            .collect()
    }

    /// Leaks coroutines that could not be driven to completion (never force-unwinds
    /// a stack that may be in an inconsistent state after a violation).
    pub fn abandon_unfinished(&mut self) -> usize {
        let mut n = 0;
        for a in self.actors.iter_mut() {
            if let Some(co) = a.co.take() {
                if co.started() && !co.done() {
                    std::mem::forget(co);
                    n += 1;
                }
            }
        }
        n
    }

    pub fn n_actors(&self) -> usize {
        self.actors.len()
    }
}
