//! dsim — deterministic simulation of deadpool (engine E1).
//!
//!   dsim check <ID> [--tier quick|thorough] [--secs S] [--runs N] [--workers N]
//!   dsim replay <file> [--quiet]
//!   dsim selfcheck <ID> [--runs N]
//!
//! Exit codes: 0 property held on everything explored; 1 violation (a line
//! `VIOLATION property=<id> replay=<path>` is printed); 2 harness error.

mod engine;
mod mgen;
mod mharness;
mod moracle;
mod mrun;
mod mtypes;
mod mworld;
mod uworld;
mod sworld;


use simcore::cli::*;
use simcore::common::*;
use simcore::rng;
use serde_json::json;

fn meta(id: &str) -> PropMeta {
    let rule_common = "each evaluation = one seeded scenario (pool config, 1..N actor scripts, per-call outcome tables, enabled schedule points, strategy) run under one seeded schedule with every step checked; distinct = distinct hash of the per-run sequence (actor, stop site / pending / boundary, env decision); non-trivial = two operations of different actors overlapped with at least one context switch, or at least one injected fault fired inside an operation";
    match id {
        _ => PropMeta {
            level: if id == "C03" { "fault_enumeration" } else { "exploration" },
            quick_secs: 20.0,
            thorough_secs: 420.0,
            rule: rule_common,
        },
    }
}

fn real_vs_stub_managed() -> serde_json::Value {
    json!({
        "real": ["deadpool::managed (Pool, Object, hooks, builder, timeouts)", "deadpool_runtime::Runtime::timeout (Tokio1 branch)", "tokio::sync::Semaphore", "tokio time driver on a paused clock"],
        "simulated": ["OS thread scheduling (coroutines + seeded controller)", "wall clock (tokio paused clock advanced only by the controller; std::time::Instant of the whole process reads the same simulated time through the clock_gettime symbol the simulator defines)", "Manager / hooks / retain predicates (scripted, per-call outcome tables)", "a sibling pool with its own trivial manager in a share of the runs (environment, not judged)"],
        "not_exercised": ["async-std runtime branch"]
    })
}

fn assumptions_managed() -> Vec<String> {
    vec![
        "interleavings are sequentially consistent and preempt only at the guarded schedule points and at awaits; calls into tokio::sync::Semaphore are atomic steps".into(),
        "bounded exploration by seeded sampling: a clean batch is evidence within the stated bounds, not proof".into(),
        "schedule points placed by the hook commits are trusted (a missing point only reduces reach; hit counts are reported)".into(),
    ]
}

fn is_managed(id: &str) -> bool {
    matches!(
        id,
        "C01" | "C02" | "C03" | "C04" | "C06" | "C07" | "C08" | "C09" | "C10" | "C11" | "C13"
    )
}

fn check(id: &str, args: &[String]) -> i32 {
    let tier = arg_val(args, "--tier")
        .or_else(|| std::env::var("VERIF_TIER").ok())
        .unwrap_or_else(|| "quick".into());
    let thorough = tier == "thorough";
    let seed: u64 = std::env::var("VERIF_SEED")
        .ok()
        .and_then(|s| s.parse().ok())
        .unwrap_or(20260926);
    let m = meta(id);
    let secs = arg_val(args, "--secs")
        .and_then(|s| s.parse().ok())
        .unwrap_or(if thorough { m.thorough_secs } else { m.quick_secs });
    let max_runs = arg_val(args, "--runs")
        .and_then(|s| s.parse().ok())
        .unwrap_or(u64::MAX / 4);
    let workers = arg_val(args, "--workers")
        .and_then(|s| s.parse().ok())
        .unwrap_or_else(|| std::thread::available_parallelism().map(|n| n.get()).unwrap_or(4));
    let vd = verif_dir();
    let known = load_known(&vd.join("known_findings.json"));
    let cfg = BatchCfg {
        profile: id.to_string(),
        seed,
        thorough,
        max_runs,
        secs,
        workers,
        known,
        corpus_dir: Some(vd.join("corpus").join(id)),
    };
    if id == "C03" {
        // fault_enumeration: the (suspension point x abandonment mode) matrix, every cell counted
        set_extra_evidence(|agg| {
            let points = ["wait", "pre_recycle", "recycle", "post_recycle", "create", "post_create"];
            let modes = ["future_dropped", "enclosing_timeout", "awaited_future_panics", "call_panics"];
            let mut m = serde_json::Map::new();
            let mut all = true;
            for p in points {
                for mo in modes {
                    if p == "wait" && (mo == "awaited_future_panics" || mo == "call_panics") {
                        continue; // nothing to panic while waiting for a slot
                    }
                    let n = agg.probes.get(&format!("abandon[{p}][{mo}]")).copied().unwrap_or(0);
                    if n == 0 {
                        all = false;
                    }
                    let _ = m.insert(format!("{p} x {mo}"), json!(n));
                }
            }
            json!({ "abandon_matrix": m, "abandon_matrix_all_cells_nonzero": all, "exhaustive": false,
                    "explanation": "the 1800-case sub-grid is enumerated completely on every run; the seeded part samples concurrent histories" })
        });
    }
    if id == "C10" {
        // managed half, then the unmanaged pool's single timeout
        let mut cfg = cfg;
        cfg.secs = secs * 0.6;
        let h = mharness::Managed;
        let r = run_batch(&h, &cfg);
        if r.found.is_some() || r.harness_error.is_some() || !r.unreproducible.is_empty() {
            return finish(&h, id, &tier, seed, &m, r, real_vs_stub_managed(), assumptions_managed());
        }
        let hu = uworld::Unmanaged;
        cfg.secs = secs * 0.4;
        let mut ru = run_batch(&hu, &cfg);
        ru.agg.merge(r.agg);
        ru.wall_s += r.wall_s;
        ru.known_hits.extend(r.known_hits);
        finish(&hu, id, &tier, seed, &m, ru, real_vs_stub_managed(), assumptions_managed())
    } else if is_managed(id) {
        let h = mharness::Managed;
        let r = run_batch(&h, &cfg);
        finish(&h, id, &tier, seed, &m, r, real_vs_stub_managed(), assumptions_managed())
    } else if id == "C14" {
        let h = sworld::SyncW;
        let r = run_batch(&h, &cfg);
        let rvs = json!({
            "real": ["deadpool_sync::SyncWrapper (new, interact, try_lock, is_mutex_poisoned, Drop)", "deadpool_runtime::Runtime::spawn_blocking / spawn_blocking_background dispatch up to the guarded seam"],
            "simulated": ["tokio's blocking thread pool (each job = one worker virtual thread started at an arbitrary later step)", "OS thread scheduling"],
            "not_exercised": ["SyncWrapper::lock (blocking lock on the caller thread)", "async-std branch"]
        });
        finish(&h, id, &tier, seed, &m, r, rvs, assumptions_managed())
    } else if matches!(id, "C05" | "C12") {
        let h = uworld::Unmanaged;
        let r = run_batch(&h, &cfg);
        finish(&h, id, &tier, seed, &m, r, real_vs_stub_unmanaged(), assumptions_managed())
    } else {
        eprintln!("harness error: unknown property {id}");
        2
    }
}

fn real_vs_stub_unmanaged() -> serde_json::Value {
    json!({
        "real": ["deadpool::unmanaged (Pool, Object)", "deadpool_runtime::Runtime::timeout (Tokio1 branch)", "tokio::sync::Semaphore (both semaphores)", "tokio time driver on a paused clock"],
        "simulated": ["OS thread scheduling (coroutines + seeded controller)", "wall clock"],
        "not_exercised": ["async-std runtime branch"]
    })
}

fn replay(path: &str, quiet: bool) -> i32 {
    let txt = match std::fs::read_to_string(path) {
        Ok(t) => t,
        Err(e) => {
            eprintln!("harness error: cannot read {path}: {e}");
            return 2;
        }
    };
    let v: serde_json::Value = match serde_json::from_str(&txt) {
        Ok(v) => v,
        Err(e) => {
            eprintln!("harness error: {e}");
            return 2;
        }
    };
    let harness = v["harness"].as_str().unwrap_or("");
    match harness {
        "dsim-sync" => {
            let rf: ReplayFile<sworld::SScenario> = match serde_json::from_value(v) {
                Ok(r) => r,
                Err(e) => {
                    eprintln!("harness error: {e}");
                    return 2;
                }
            };
            do_replay(&sworld::SyncW, &rf, path, quiet)
        }
        "dsim-unmanaged" => {
            let rf: ReplayFile<uworld::UScenario> = match serde_json::from_value(v) {
                Ok(r) => r,
                Err(e) => {
                    eprintln!("harness error: {e}");
                    return 2;
                }
            };
            do_replay(&uworld::Unmanaged, &rf, path, quiet)
        }
        "dsim-managed" => {
            let rf: ReplayFile<mtypes::MScenario> = match serde_json::from_value(v) {
                Ok(r) => r,
                Err(e) => {
                    eprintln!("harness error: {e}");
                    return 2;
                }
            };
            do_replay(&mharness::Managed, &rf, path, quiet)
        }
        other => {
            eprintln!("harness error: unknown harness {other:?} in replay file");
            2
        }
    }
}

/// Determinism proof on a sample: every seed is run twice (second time on a
/// different worker) and the event-log hashes, decisions and verdicts must agree.
fn selfcheck(id: &str, args: &[String]) -> i32 {
    let runs: u64 = arg_val(args, "--runs").and_then(|s| s.parse().ok()).unwrap_or(10_000);
    let seed: u64 = std::env::var("VERIF_SEED").ok().and_then(|s| s.parse().ok()).unwrap_or(20260926);
    let r = if id == "C10" {
        let a = selfcheck_with(&mharness::Managed, id, seed, runs);
        if a != 0 {
            a
        } else {
            selfcheck_with(&uworld::Unmanaged, id, seed, runs)
        }
    } else if id == "C14" {
        selfcheck_with(&sworld::SyncW, id, seed, runs)
    } else if matches!(id, "C05" | "C12") {
        selfcheck_with(&uworld::Unmanaged, id, seed, runs)
    } else if is_managed(id) {
        selfcheck_with(&mharness::Managed, id, seed, runs)
    } else {
        eprintln!("harness error: unknown property {id}");
        return 2;
    };
    if r == 0 {
        println!("selfcheck {id}: {runs} seeds x 2 runs (different workers, fresh replays) identical");
    }
    r
}

fn h_name<H: Harness>(h: &H) -> &'static str {
    h.name()
}

fn selfcheck_with<H: Harness>(h_: &H, id: &str, seed: u64, runs: u64) -> i32 {
    let h = h_;
    use std::sync::atomic::{AtomicU64, Ordering};
    let workers = 16usize;
    // pass 1: hashes computed with `workers` threads in index order
    let pass = |nw: usize, reverse: bool| -> Vec<(u64, usize, Option<String>)> {
        let out = std::sync::Mutex::new(vec![(0u64, 0usize, None); runs as usize]);
        let next = AtomicU64::new(0);
        std::thread::scope(|s| {
            for _ in 0..nw {
                s.spawn(|| loop {
                    let k = next.fetch_add(1, Ordering::SeqCst);
                    if k >= runs {
                        break;
                    }
                    let i = if reverse { runs - 1 - k } else { k };
                    let mut rng = rng::Rng::new(rng::mix(&[seed, 0x5e1f, i]));
                    let sc = h.generate(&mut rng, id, i % 2 == 0);
                    let o = h.run(&sc, None, false);
                    // and replay its decisions exactly
                    let o2 = h.run(&sc, Some(o.decisions.clone()), false);
                    let mut sig = o.violation.as_ref().map(|v| v.signature());
                    if o2.log_hash != o.log_hash || o2.diverged.is_some() {
                        sig = Some(format!("REPLAY-MISMATCH {:?}", o2.diverged));
                    }
                    out.lock().unwrap()[i as usize] = (o.log_hash, o.decisions.len(), sig);
                });
            }
        });
        out.into_inner().unwrap()
    };
    let a = pass(workers, false);
    let b = pass(5, true);
    let mut bad = 0;
    for i in 0..runs as usize {
        if a[i] != b[i] || a[i].2.as_deref().map(|s| s.starts_with("REPLAY-MISMATCH")).unwrap_or(false) {
            if bad < 5 {
                eprintln!("selfcheck: run {i} differs: {:?} vs {:?}", a[i], b[i]);
            }
            bad += 1;
        }
    }
    if bad > 0 {
        eprintln!("harness error: {bad} of {runs} runs are not deterministic");
        return 2;
    }
    // digest over every run's event-log hash: equal across processes, worker counts and runs
    let mut h = rng::Hasher::default();
    for x in &a {
        h.u64(x.0);
        h.u64(x.1 as u64);
    }
    println!("selfcheck digest {} {}: {:016x}", h_name(h_), id, h.0);
    0
}

fn main() {
    let args: Vec<String> = std::env::args().collect();
    let code = match args.get(1).map(|s| s.as_str()) {
        Some("check") if args.len() >= 3 => check(&args[2], &args[3..]),
        Some("replay") if args.len() >= 3 => replay(&args[2], args.iter().any(|a| a == "--quiet")),
        Some("selfcheck") if args.len() >= 3 => selfcheck(&args[2], &args[3..]),
        _ => {
            eprintln!("usage: dsim check <ID> [--tier quick|thorough] | replay <file> | selfcheck <ID>");
            2
        }
    };
    std::process::exit(code);
}
