//! Scenario generators for the managed-pool profiles. Everything is drawn from the
//! run's PRNG before the run starts (swarm style: sizes, op mix, fault kinds,
//! enabled sites and scheduling strategy all vary per run).

use crate::engine::{Knobs, SITES, SITES_IN_LOCK};
use crate::mtypes::*;
use simcore::rng::Rng;

#[derive(Clone, Debug)]
pub struct GenCfg {
    pub profile: &'static str,
    pub max_actors: usize,
    pub max_ops: usize,
    pub max_size_hi: usize,
    pub max_hooks: usize,
    pub resize: bool,
    pub close: bool,
    pub retain: bool,
    pub take: bool,
    pub faults: bool,
    pub timeouts: bool,
    pub cancel: bool,
    /// allow configurations without runtime but with per-call timeouts
    pub no_runtime_calls: bool,
    pub drop_handles: bool,
}

pub fn cfg_for(profile: &str, thorough: bool) -> GenCfg {
    let base = GenCfg {
        profile: "C01",
        max_actors: if thorough { 6 } else { 4 },
        max_ops: if thorough { 10 } else { 6 },
        max_size_hi: if thorough { 6 } else { 4 },
        max_hooks: if thorough { 3 } else { 2 },
        resize: false,
        close: false,
        retain: true,
        take: true,
        faults: true,
        timeouts: true,
        cancel: true,
        no_runtime_calls: false,
        drop_handles: false,
    };
    match profile {
        "C01" => GenCfg { profile: "C01", ..base },
        "C02" => GenCfg { profile: "C02", close: true, resize: true, ..base },
        "C03" => GenCfg { profile: "C03", resize: true, close: true, ..base },
        "C04" => GenCfg { profile: "C04", retain: false, take: false, close: true, ..base },
        "C06" => GenCfg { profile: "C06", close: true, resize: true, drop_handles: true, ..base },
        "C07" => GenCfg { profile: "C07", resize: true, ..base },
        "C08" => GenCfg { profile: "C08", resize: true, no_runtime_calls: true, drop_handles: true, ..base },
        "C09" => GenCfg { profile: "C09", resize: true, close: true, ..base },
        "C10" => GenCfg { profile: "C10", no_runtime_calls: true, resize: true, ..base },
        "C11" => GenCfg { profile: "C11", close: true, resize: true, ..base },
        "C13" => GenCfg { profile: "C13", resize: true, close: true, ..base },
        _ => panic!("unknown managed profile {profile}"),
    }
}

fn small_ms(rng: &mut Rng) -> u64 {
    // few distinct values so that exact ties between deadlines are frequent
    *rng.pick(&[1u64, 2, 5, 5, 10, 10, 20, 40])
}

fn gen_timeout(rng: &mut Rng, p_none: u32, p_zero: u32) -> Option<u64> {
    let x = rng.below(100) as u32;
    if x < p_none {
        None
    } else if x < p_none + p_zero {
        Some(0)
    } else {
        // boundary values: whole seconds and "practically no timeout"
        Some(match rng.below(100) {
            0..=3 => *rng.pick(&[1000u64, 2000]),
            4..=5 => u64::MAX,
            _ => small_ms(rng),
        })
    }
}

pub fn gen_outcome(rng: &mut Rng, p_fault: u32, p_async: u32, sync_only: bool, allow_panic: bool) -> Outcome {
    let kind = if rng.permille(p_fault) {
        match rng.below(if allow_panic { 10 } else { 7 }) {
            0..=2 => OKind::ErrBackend,
            3..=4 => OKind::ErrMsg,
            5..=6 => {
                if sync_only {
                    OKind::ErrBackend
                } else {
                    OKind::Never
                }
            }
            7..=8 => OKind::Panic,
            _ => OKind::PanicCall,
        }
    } else {
        OKind::Ok
    };
    let mode = if sync_only || !rng.permille(p_async) {
        OMode::Immediate
    } else if rng.below(100) < 70 {
        OMode::Gated
    } else {
        OMode::Delay(small_ms(rng))
    };
    Outcome { kind, mode }
}

pub fn gen_knobs(rng: &mut Rng, has_panic: bool, managed: bool) -> Knobs {
    let mut sites = Vec::new();
    let tl = rng.below(100) < 60;
    if tl {
        let p = *rng.pick(&[150u32, 400, 700, 1000]);
        let prefix = if managed { "managed." } else { "unmanaged." };
        for s in SITES {
            if !s.starts_with(prefix) && !s.starts_with("sync.") && !(managed && *s == "harness.pred") {
                continue;
            }
            if SITES_IN_LOCK.contains(s) && has_panic {
                continue;
            }
            if rng.permille(p) {
                sites.push(s.to_string());
            }
        }
        // targeted: sometimes only a pair of sites
        if rng.below(100) < 15 && sites.len() > 2 {
            let a = rng.below(sites.len());
            let mut b = rng.below(sites.len());
            if b == a {
                b = (a + 1) % sites.len();
            }
            sites = vec![sites[a].clone(), sites[b].clone()];
        }
    }
    let strategy = *rng.pick(&[0u8, 1, 1, 2]);
    Knobs {
        sites,
        strategy,
        stick: rng.range(600, 950) as u32,
        pct_depth: rng.range(1, 3) as u8,
        p_env: *rng.pick(&[50u32, 150, 300, 500]),
        p_time: *rng.pick(&[0u32, 100, 300, 600]),
        p_spurious: *rng.pick(&[0u32, 0, 30, 150]),
        p_cancel: *rng.pick(&[0u32, 30, 100, 300]),
        step_cap: 6000,
    }
}

pub fn gen_managed(rng: &mut Rng, cfg: &GenCfg) -> MScenario {
    // reuse-heavy mode: several objects idle at once, few faults, many returns (so that reuse
    // order, metrics and recycling paths are exercised instead of creation only)
    let reuse_mode = if matches!(cfg.profile, "C04" | "C08" | "C09" | "C13") {
        rng.below(100) < 50
    } else {
        rng.below(100) < 15
    };
    // pool
    let max_size = if reuse_mode {
        *rng.pick(&[2usize, 2, 3, 3, 4])
    } else {
        *rng.pick(&[0usize, 1, 1, 1, 2, 2, 2, 3, 3, 4])
    };
    let max_size = if cfg.max_size_hi > 4 && rng.below(10) == 0 {
        rng.range(5, cfg.max_size_hi)
    } else {
        max_size.min(cfg.max_size_hi)
    };
    let use_timeouts = cfg.timeouts && rng.below(100) < 50;
    let (wait, create, recycle) = if use_timeouts {
        (
            gen_timeout(rng, 50, 15),
            gen_timeout(rng, 65, 0),
            gen_timeout(rng, 65, 0),
        )
    } else {
        (None, None, None)
    };
    let any_pool_t = wait.is_some() || create.is_some() || recycle.is_some();
    let runtime = if cfg.no_runtime_calls {
        // C10: pool-level timeouts without runtime must be refused by build()
        if any_pool_t { rng.below(100) < 90 } else { rng.coin() }
    } else if any_pool_t {
        true
    } else {
        // every other profile: a minority of pools runs without runtime (per-call timeouts on
        // such a pool end in NoRuntimeSpecified, with its own error paths)
        rng.below(100) >= 12
    };
    let nh = |rng: &mut Rng| -> Vec<bool> {
        let n = *rng.pick(&[0usize, 0, 0, 1, 1, 2, 3]);
        (0..n.min(cfg.max_hooks)).map(|_| rng.coin()).collect()
    };
    let pool = PoolCfg {
        max_size,
        lifo: rng.coin(),
        wait,
        create,
        recycle,
        runtime,
        post_create: nh(rng),
        pre_recycle: nh(rng),
        post_recycle: nh(rng),
    };

    // outcomes
    let fault_level = if !cfg.faults {
        0
    } else if reuse_mode {
        *rng.pick(&[0u32, 0, 40, 100])
    } else {
        *rng.pick(&[0u32, 0, 0, 60, 150, 350])
    };
    let p_async = *rng.pick(&[0u32, 300, 600, 900]);
    let allow_panic = rng.below(100) < 40;
    let n_tab = 12;
    let tab = |rng: &mut Rng, sync_only: bool| -> Vec<Outcome> {
        (0..n_tab)
            .map(|_| gen_outcome(rng, fault_level, p_async, sync_only, allow_panic))
            .collect()
    };
    let outcomes = Outcomes {
        create: tab(rng, false),
        recycle: tab(rng, false),
        post_create: tab(rng, false),
        pre_recycle: tab(rng, false),
        post_recycle: tab(rng, false),
    };

    // actors
    let n_actors = rng.range(1, cfg.max_actors);
    let mut close_budget = if cfg.close && rng.below(100) < 35 { 1 } else { 0 };
    let heavy_block = rng.below(100) < 30;
    // C07: many resizes, many abandoned gets (permits that come back behind the pool's back)
    let resize_heavy = cfg.profile == "C07" && rng.below(100) < 50;
    // a share of the runs has a second, unrelated pool come and go next to the one under test
    let sibling = rng.below(100) < 10;
    let mut actors = Vec::new();
    for _ in 0..n_actors {
        let n_ops = if reuse_mode { rng.range(cfg.max_ops / 2, cfg.max_ops + 2) } else { rng.range(1, cfg.max_ops) };
        let mut ops = Vec::new();
        for k in 0..n_ops {
            let mut weights = vec![
                40u32,                                   // get
                if reuse_mode { 45 } else if heavy_block { 12 } else { 25 }, // return
                if cfg.take { 6 } else { 0 },            // take
                if cfg.retain { 5 } else { 0 },          // retain
                4,                                       // status
                3,                                       // use
                if cfg.resize { if resize_heavy { 22 } else { 8 } } else { 0 }, // resize
                if close_budget > 0 && k + 1 >= n_ops / 2 { 6 } else { 0 }, // close
                if cfg.drop_handles { 2 } else { 0 },    // drop handle
            ];
            if k == 0 {
                weights[1] = 0;
                weights[2] = 0;
                weights[5] = 0;
            }
            let op = match rng.weighted(&weights) {
                0 => {
                    let t = if rng.below(100) < 55 {
                        GetT::Inherit
                    } else {
                        let allow_t = cfg.timeouts;
                        GetT::Explicit {
                            wait: if allow_t { gen_timeout(rng, 40, 30) } else if rng.coin() { Some(0) } else { None },
                            create: if allow_t { gen_timeout(rng, 70, 4) } else { None },
                            recycle: if allow_t { gen_timeout(rng, 70, 6) } else { None },
                        }
                    };
                    Op::Get {
                        t,
                        fault: None,
                        enclosing: if cfg.cancel && rng.below(100) < 10 {
                            Some(small_ms(rng))
                        } else {
                            None
                        },
                        cancellable: cfg.cancel && rng.below(100) < if resize_heavy { 65 } else { 35 },
                    }
                }
                1 => Op::Return { slot: rng.below(4) as u8, unwinding: cfg.faults && rng.below(100) < 7 },
                2 => Op::Take { slot: rng.below(4) as u8, detach_panics: cfg.faults && rng.below(100) < 12 },
                3 => Op::Retain {
                    pred: match rng.below(6) {
                        0 => Pred::AcceptAll,
                        1 => Pred::RejectAll,
                        2 | 3 => Pred::Mask(rng.next() as u32),
                        4 => Pred::EveryKth(rng.range(1, 3) as u8),
                        _ => Pred::FirstN(rng.range(0, 2) as u8),
                    },
                },
                4 => Op::Status,
                5 => Op::Use { slot: rng.below(4) as u8 },
                6 => {
                    let hi = max_size + 2;
                    Op::Resize { n: rng.range(0, hi) }
                }
                7 => {
                    close_budget -= 1;
                    Op::Close
                }
                _ => Op::DropHandle,
            };
            ops.push(op);
            if cfg.cancel && rng.below(100) < 3 {
                ops.push(Op::GetUnpolled { explicit: rng.coin() });
            }
            if sibling && rng.below(100) < 15 {
                ops.push(Op::Sibling { kind: rng.below(2) as u8 });
            }
        }
        actors.push(ops);
    }
    let mut sc = MScenario {
        profile: cfg.profile.to_string(),
        pool,
        actors,
        outcomes,
        knobs: Knobs::default(),
        sched_seed: rng.next(),
        drop_handles_first: cfg.drop_handles && rng.below(100) < 30,
        rest_every: 0,
    };
    sc.knobs = gen_knobs(rng, sc.has_panic_outcome(), true);
    if sibling && !sc.knobs.sites.iter().any(|s| s == "harness.dtor") {
        sc.knobs.sites.push("harness.dtor".to_string());
    }
    if !cfg.cancel {
        sc.knobs.p_cancel = 0;
    } else if resize_heavy && sc.knobs.p_cancel < 100 {
        sc.knobs.p_cancel = 200;
    }
    sc
}
