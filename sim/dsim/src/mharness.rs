//! `Harness` implementation for the managed-pool world: generation, grids,
//! shrinking candidates and the canonical shape of a scenario.

use simcore::common::{Harness, Outcome as RunOutcome};
use crate::engine::Decision;
use crate::mgen;
use crate::mrun;
use crate::mtypes::*;
use simcore::rng::Rng;

pub struct Managed;

fn op_name(op: &Op) -> String {
    match op {
        Op::Get { t, enclosing, cancellable } => {
            let mut s = String::from("Get");
            if let GetT::Explicit { wait, create, recycle } = t {
                s.push_str(&format!(
                    "(w={},c={},r={})",
                    tn(wait),
                    tn(create),
                    tn(recycle)
                ));
            }
            if enclosing.is_some() {
                s.push_str("+encl");
            }
            if *cancellable {
                s.push_str("+canc");
            }
            s
        }
        Op::Return { .. } => "Return".into(),
        Op::Take { .. } => "Take".into(),
        Op::Use { .. } => "Use".into(),
        Op::Resize { n } => format!("Resize({n})"),
        Op::Close => "Close".into(),
        Op::Retain { pred } => format!("Retain({:?})", pred).split('(').take(2).collect::<Vec<_>>().join("("),
        Op::Status => "Status".into(),
        Op::DropHandle => "DropHandle".into(),
        Op::Nop => "Nop".into(),
    }
}

fn tn(t: &Option<u64>) -> &'static str {
    match t {
        None => "none",
        Some(0) => "zero",
        Some(_) => "finite",
    }
}

impl Harness for Managed {
    type Sc = MScenario;

    fn name(&self) -> &'static str {
        "dsim-managed"
    }

    fn generate(&self, rng: &mut Rng, profile: &str, thorough: bool) -> MScenario {
        let cfg = mgen::cfg_for(profile, thorough);
        mgen::gen_managed(rng, &cfg)
    }

    fn run(&self, sc: &MScenario, replay: Option<Vec<Decision>>, trace: bool) -> RunOutcome {
        mrun::run_scenario(sc, replay, trace)
    }

    fn set_sched_seed(&self, sc: &mut MScenario, seed: u64) {
        sc.sched_seed = seed;
    }

    fn shrink_candidates(&self, sc: &MScenario) -> Vec<MScenario> {
        let mut out = Vec::new();
        // drop actors
        if sc.actors.len() > 1 {
            for i in 0..sc.actors.len() {
                let mut c = sc.clone();
                let _ = c.actors.remove(i);
                out.push(c);
            }
        }
        // drop second half of an actor's script, then single ops
        for i in 0..sc.actors.len() {
            let n = sc.actors[i].len();
            if n > 2 {
                let mut c = sc.clone();
                c.actors[i].truncate(n / 2);
                out.push(c);
            }
        }
        for i in 0..sc.actors.len() {
            for k in (0..sc.actors[i].len()).rev() {
                let mut c = sc.clone();
                let _ = c.actors[i].remove(k);
                if c.actors[i].is_empty() && c.actors.len() > 1 {
                    let _ = c.actors.remove(i);
                }
                out.push(c);
            }
        }
        // all outcomes ok / immediate
        {
            let mut c = sc.clone();
            c.outcomes = Outcomes::default();
            out.push(c);
        }
        macro_rules! tables {
            ($f:ident) => {
                for i in 0..sc.outcomes.$f.len() {
                    if sc.outcomes.$f[i].kind != OKind::Ok {
                        let mut c = sc.clone();
                        c.outcomes.$f[i].kind = OKind::Ok;
                        out.push(c);
                    }
                    if sc.outcomes.$f[i].mode != OMode::Immediate {
                        let mut c = sc.clone();
                        c.outcomes.$f[i].mode = OMode::Immediate;
                        out.push(c);
                    }
                }
                if sc.outcomes.$f.iter().any(|o| o.mode != OMode::Immediate) {
                    let mut c = sc.clone();
                    for o in c.outcomes.$f.iter_mut() {
                        o.mode = OMode::Immediate;
                    }
                    out.push(c);
                }
                while let Some(last) = sc.outcomes.$f.last() {
                    if *last == Outcome::OK {
                        let mut c = sc.clone();
                        while c.outcomes.$f.last() == Some(&Outcome::OK) {
                            let _ = c.outcomes.$f.pop();
                        }
                        out.push(c);
                    }
                    break;
                }
            };
        }
        tables!(create);
        tables!(recycle);
        tables!(post_create);
        tables!(pre_recycle);
        tables!(post_recycle);
        // hooks
        macro_rules! hooks {
            ($f:ident) => {
                if !sc.pool.$f.is_empty() {
                    let mut c = sc.clone();
                    c.pool.$f.clear();
                    out.push(c);
                    for i in 0..sc.pool.$f.len() {
                        let mut c = sc.clone();
                        let _ = c.pool.$f.remove(i);
                        out.push(c);
                    }
                    for i in 0..sc.pool.$f.len() {
                        if sc.pool.$f[i] {
                            let mut c = sc.clone();
                            c.pool.$f[i] = false;
                            out.push(c);
                        }
                    }
                }
            };
        }
        hooks!(post_create);
        hooks!(pre_recycle);
        hooks!(post_recycle);
        // timeouts
        if sc.pool.wait.is_some() || sc.pool.create.is_some() || sc.pool.recycle.is_some() {
            let mut c = sc.clone();
            c.pool.wait = None;
            c.pool.create = None;
            c.pool.recycle = None;
            out.push(c);
            for f in 0..3 {
                let mut c = sc.clone();
                match f {
                    0 => c.pool.wait = None,
                    1 => c.pool.create = None,
                    _ => c.pool.recycle = None,
                }
                out.push(c);
            }
        }
        for i in 0..sc.actors.len() {
            for k in 0..sc.actors[i].len() {
                if let Op::Get { t, enclosing, cancellable } = sc.actors[i][k] {
                    if t != GetT::Inherit {
                        let mut c = sc.clone();
                        c.actors[i][k] = Op::Get { t: GetT::Inherit, enclosing, cancellable };
                        out.push(c);
                    }
                    if enclosing.is_some() {
                        let mut c = sc.clone();
                        c.actors[i][k] = Op::Get { t, enclosing: None, cancellable };
                        out.push(c);
                    }
                    if cancellable {
                        let mut c = sc.clone();
                        c.actors[i][k] = Op::Get { t, enclosing, cancellable: false };
                        out.push(c);
                    }
                }
                if let Op::Retain { pred } = sc.actors[i][k] {
                    if pred != Pred::RejectAll && pred != Pred::AcceptAll {
                        for p in [Pred::RejectAll, Pred::AcceptAll] {
                            let mut c = sc.clone();
                            c.actors[i][k] = Op::Retain { pred: p };
                            out.push(c);
                        }
                    }
                }
                if let Op::Resize { n } = sc.actors[i][k] {
                    if n > 0 {
                        let mut c = sc.clone();
                        c.actors[i][k] = Op::Resize { n: n - 1 };
                        out.push(c);
                    }
                }
            }
        }
        if sc.pool.max_size > 0 {
            let mut c = sc.clone();
            c.pool.max_size -= 1;
            out.push(c);
        }
        if sc.pool.lifo {
            let mut c = sc.clone();
            c.pool.lifo = false;
            out.push(c);
        }
        if sc.drop_handles_first {
            let mut c = sc.clone();
            c.drop_handles_first = false;
            out.push(c);
        }
        // knobs
        if !sc.knobs.sites.is_empty() {
            let mut c = sc.clone();
            c.knobs.sites.clear();
            out.push(c);
            if sc.knobs.sites.len() > 1 {
                for i in 0..sc.knobs.sites.len() {
                    let mut c = sc.clone();
                    let _ = c.knobs.sites.remove(i);
                    out.push(c);
                }
            }
        }
        if sc.knobs.p_spurious > 0 {
            let mut c = sc.clone();
            c.knobs.p_spurious = 0;
            out.push(c);
        }
        if sc.knobs.p_cancel > 0 {
            let mut c = sc.clone();
            c.knobs.p_cancel = 0;
            out.push(c);
        }
        if sc.knobs.p_time > 0 {
            let mut c = sc.clone();
            c.knobs.p_time = 0;
            out.push(c);
        }
        if sc.knobs.strategy != 1 || sc.knobs.stick != 950 {
            let mut c = sc.clone();
            c.knobs.strategy = 1;
            c.knobs.stick = 950;
            out.push(c);
        }
        out
    }

    fn shape(&self, sc: &MScenario) -> String {
        let mut s = format!(
            "max_size={} runtime={} pool_t=(w={},c={},r={}) hooks={}/{}/{} |",
            sc.pool.max_size,
            sc.pool.runtime,
            tn(&sc.pool.wait),
            tn(&sc.pool.create),
            tn(&sc.pool.recycle),
            sc.pool.post_create.len(),
            sc.pool.pre_recycle.len(),
            sc.pool.post_recycle.len()
        );
        for (i, a) in sc.actors.iter().enumerate() {
            s.push_str(&format!(" A{}:[", i));
            s.push_str(&a.iter().map(op_name).collect::<Vec<_>>().join(","));
            s.push(']');
        }
        let mut faults = Vec::new();
        for (name, tab) in [
            ("create", &sc.outcomes.create),
            ("recycle", &sc.outcomes.recycle),
            ("post_create", &sc.outcomes.post_create),
            ("pre_recycle", &sc.outcomes.pre_recycle),
            ("post_recycle", &sc.outcomes.post_recycle),
        ] {
            for o in tab {
                if o.kind != OKind::Ok {
                    faults.push(format!("{}:{:?}", name, o.kind));
                }
            }
        }
        s.push_str(&format!(" | faults=[{}]", faults.join(",")));
        s.push_str(&format!(" | sites=[{}]", sc.knobs.sites.join(",")));
        s
    }
}
