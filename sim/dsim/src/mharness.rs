//! `Harness` implementation for the managed-pool world: generation, grids,
//! shrinking candidates and the canonical shape of a scenario.

use simcore::common::{Harness, Outcome as RunOutcome};
use crate::engine::Decision;
use crate::mgen;
use crate::mrun;
use crate::mtypes::*;
use simcore::rng::Rng;

pub struct Managed;

fn op_name(op: &Op) -> String {
    match op {
        Op::Get { t, enclosing, cancellable, fault } => {
            let mut s = String::from("Get");
            if let Some(f) = fault {
                s.push_str(&format!("!{:?}:{:?}", f.at, f.outcome.kind));
            }
            if let GetT::Explicit { wait, create, recycle } = t {
                s.push_str(&format!(
                    "(w={},c={},r={})",
                    tn(wait),
                    tn(create),
                    tn(recycle)
                ));
            }
            if enclosing.is_some() {
                s.push_str("+encl");
            }
            if *cancellable {
                s.push_str("+canc");
            }
            s
        }
        Op::Return { unwinding, .. } => format!("Return{}", if *unwinding { "!unwinding" } else { "" }),
        Op::Take { detach_panics, .. } => format!("Take{}", if *detach_panics { "!detach_panics" } else { "" }),
        Op::Use { .. } => "Use".into(),
        Op::Resize { n } => format!("Resize({n})"),
        Op::Close => "Close".into(),
        Op::Retain { pred } => format!("Retain({:?})", pred).split('(').take(2).collect::<Vec<_>>().join("("),
        Op::Status => "Status".into(),
        Op::DropHandle => "DropHandle".into(),
        Op::Nop => "Nop".into(),
        Op::GetUnpolled { .. } => "Get!unpolled".into(),
        Op::Sibling { kind } => format!("Sibling({})", kind % 2),
    }
}

fn tn(t: &Option<u64>) -> &'static str {
    match t {
        None => "none",
        Some(0) => "zero",
        Some(_) => "finite",
    }
}

impl Harness for Managed {
    type Sc = MScenario;

    fn name(&self) -> &'static str {
        "dsim-managed"
    }

    fn generate(&self, rng: &mut Rng, profile: &str, thorough: bool) -> MScenario {
        let cfg = mgen::cfg_for(profile, thorough);
        mgen::gen_managed(rng, &cfg)
    }

    fn run(&self, sc: &MScenario, replay: Option<Vec<Decision>>, trace: bool) -> RunOutcome {
        mrun::run_scenario(sc, replay, trace)
    }

    fn set_sched_seed(&self, sc: &mut MScenario, seed: u64) {
        sc.sched_seed = seed;
    }

    fn shrink_candidates(&self, sc: &MScenario) -> Vec<MScenario> {
        let mut out = Vec::new();
        // drop actors
        if sc.actors.len() > 1 {
            for i in 0..sc.actors.len() {
                let mut c = sc.clone();
                let _ = c.actors.remove(i);
                out.push(c);
            }
        }
        // drop second half of an actor's script, then single ops
        for i in 0..sc.actors.len() {
            let n = sc.actors[i].len();
            if n > 2 {
                let mut c = sc.clone();
                c.actors[i].truncate(n / 2);
                out.push(c);
            }
        }
        for i in 0..sc.actors.len() {
            for k in (0..sc.actors[i].len()).rev() {
                let mut c = sc.clone();
                let _ = c.actors[i].remove(k);
                if c.actors[i].is_empty() && c.actors.len() > 1 {
                    let _ = c.actors.remove(i);
                }
                out.push(c);
            }
        }
        // all outcomes ok / immediate
        {
            let mut c = sc.clone();
            c.outcomes = Outcomes::default();
            out.push(c);
        }
        macro_rules! tables {
            ($f:ident) => {
                for i in 0..sc.outcomes.$f.len() {
                    if sc.outcomes.$f[i].kind != OKind::Ok {
                        let mut c = sc.clone();
                        c.outcomes.$f[i].kind = OKind::Ok;
                        out.push(c);
                    }
                    if sc.outcomes.$f[i].mode != OMode::Immediate {
                        let mut c = sc.clone();
                        c.outcomes.$f[i].mode = OMode::Immediate;
                        out.push(c);
                    }
                }
                if sc.outcomes.$f.iter().any(|o| o.mode != OMode::Immediate) {
                    let mut c = sc.clone();
                    for o in c.outcomes.$f.iter_mut() {
                        o.mode = OMode::Immediate;
                    }
                    out.push(c);
                }
                while let Some(last) = sc.outcomes.$f.last() {
                    if *last == Outcome::OK {
                        let mut c = sc.clone();
                        while c.outcomes.$f.last() == Some(&Outcome::OK) {
                            let _ = c.outcomes.$f.pop();
                        }
                        out.push(c);
                    }
                    break;
                }
            };
        }
        tables!(create);
        tables!(recycle);
        tables!(post_create);
        tables!(pre_recycle);
        tables!(post_recycle);
        // hooks
        macro_rules! hooks {
            ($f:ident) => {
                if !sc.pool.$f.is_empty() {
                    let mut c = sc.clone();
                    c.pool.$f.clear();
                    out.push(c);
                    for i in 0..sc.pool.$f.len() {
                        let mut c = sc.clone();
                        let _ = c.pool.$f.remove(i);
                        out.push(c);
                    }
                    for i in 0..sc.pool.$f.len() {
                        if sc.pool.$f[i] {
                            let mut c = sc.clone();
                            c.pool.$f[i] = false;
                            out.push(c);
                        }
                    }
                }
            };
        }
        hooks!(post_create);
        hooks!(pre_recycle);
        hooks!(post_recycle);
        // timeouts
        if sc.pool.wait.is_some() || sc.pool.create.is_some() || sc.pool.recycle.is_some() {
            let mut c = sc.clone();
            c.pool.wait = None;
            c.pool.create = None;
            c.pool.recycle = None;
            out.push(c);
            for f in 0..3 {
                let mut c = sc.clone();
                match f {
                    0 => c.pool.wait = None,
                    1 => c.pool.create = None,
                    _ => c.pool.recycle = None,
                }
                out.push(c);
            }
        }
        for i in 0..sc.actors.len() {
            for k in 0..sc.actors[i].len() {
                if let Op::Get { t, enclosing, cancellable, fault } = sc.actors[i][k] {
                    if fault.is_some() {
                        let mut c = sc.clone();
                        c.actors[i][k] = Op::Get { t, enclosing, cancellable, fault: None };
                        out.push(c);
                    }
                    if t != GetT::Inherit {
                        let mut c = sc.clone();
                        c.actors[i][k] = Op::Get { t: GetT::Inherit, enclosing, cancellable, fault };
                        out.push(c);
                    }
                    if enclosing.is_some() {
                        let mut c = sc.clone();
                        c.actors[i][k] = Op::Get { t, enclosing: None, cancellable, fault };
                        out.push(c);
                    }
                    if cancellable {
                        let mut c = sc.clone();
                        c.actors[i][k] = Op::Get { t, enclosing, cancellable: false, fault };
                        out.push(c);
                    }
                }
                if let Op::Retain { pred } = sc.actors[i][k] {
                    if pred != Pred::RejectAll && pred != Pred::AcceptAll {
                        for p in [Pred::RejectAll, Pred::AcceptAll] {
                            let mut c = sc.clone();
                            c.actors[i][k] = Op::Retain { pred: p };
                            out.push(c);
                        }
                    }
                }
                if let Op::Resize { n } = sc.actors[i][k] {
                    if n > 0 {
                        let mut c = sc.clone();
                        c.actors[i][k] = Op::Resize { n: n - 1 };
                        out.push(c);
                    }
                }
            }
        }
        if sc.pool.max_size > 0 {
            let mut c = sc.clone();
            c.pool.max_size -= 1;
            out.push(c);
        }
        if sc.pool.lifo {
            let mut c = sc.clone();
            c.pool.lifo = false;
            out.push(c);
        }
        if sc.drop_handles_first {
            let mut c = sc.clone();
            c.drop_handles_first = false;
            out.push(c);
        }
        // knobs
        if !sc.knobs.sites.is_empty() {
            let mut c = sc.clone();
            c.knobs.sites.clear();
            out.push(c);
            if sc.knobs.sites.len() > 1 {
                for i in 0..sc.knobs.sites.len() {
                    let mut c = sc.clone();
                    let _ = c.knobs.sites.remove(i);
                    out.push(c);
                }
            }
        }
        if sc.knobs.p_spurious > 0 {
            let mut c = sc.clone();
            c.knobs.p_spurious = 0;
            out.push(c);
        }
        if sc.knobs.p_cancel > 0 {
            let mut c = sc.clone();
            c.knobs.p_cancel = 0;
            out.push(c);
        }
        if sc.knobs.p_time > 0 {
            let mut c = sc.clone();
            c.knobs.p_time = 0;
            out.push(c);
        }
        if sc.knobs.strategy != 1 || sc.knobs.stick != 950 {
            let mut c = sc.clone();
            c.knobs.strategy = 1;
            c.knobs.stick = 950;
            out.push(c);
        }
        out
    }

    fn grid(&self, profile: &str, _thorough: bool) -> Vec<MScenario> {
        match profile {
            "C03" => c03_grid(),
            "C10" => c10_grid(),
            "C08" => c08_grid(),
            _ => Vec::new(),
        }
    }

    fn shape(&self, sc: &MScenario) -> String {
        let mut s = format!(
            "max_size={} runtime={} pool_t=(w={},c={},r={}) hooks={}/{}/{} |",
            sc.pool.max_size,
            sc.pool.runtime,
            tn(&sc.pool.wait),
            tn(&sc.pool.create),
            tn(&sc.pool.recycle),
            sc.pool.post_create.len(),
            sc.pool.pre_recycle.len(),
            sc.pool.post_recycle.len()
        );
        for (i, a) in sc.actors.iter().enumerate() {
            s.push_str(&format!(" A{}:[", i));
            s.push_str(&a.iter().map(op_name).collect::<Vec<_>>().join(","));
            s.push(']');
        }
        let mut faults = Vec::new();
        for (name, tab) in [
            ("create", &sc.outcomes.create),
            ("recycle", &sc.outcomes.recycle),
            ("post_create", &sc.outcomes.post_create),
            ("pre_recycle", &sc.outcomes.pre_recycle),
            ("post_recycle", &sc.outcomes.post_recycle),
        ] {
            for o in tab {
                if o.kind != OKind::Ok {
                    faults.push(format!("{}:{:?}", name, o.kind));
                }
            }
        }
        s.push_str(&format!(" | faults=[{}]", faults.join(",")));
        s.push_str(&format!(" | sites=[{}]", sc.knobs.sites.join(",")));
        s
    }
}


/// C03 sub-grid: suspension point x abandonment mode x base state x max_size x queue mode,
/// single task, so that the differential oracle (books before vs after) applies to every case.
pub fn c03_grid() -> Vec<MScenario> {
    use crate::engine::Knobs;
    let mut out = Vec::new();
    let get = |fault: Option<OpFault>, enclosing: Option<u64>, cancellable: bool| Op::Get {
        t: GetT::Inherit,
        fault,
        enclosing,
        cancellable,
    };
    let plain = get(None, None, false);
    // (point, hook index)
    let points: Vec<Option<CallTag>> = vec![
        None, // wait
        Some(CallTag::PreRecycle(0)),
        Some(CallTag::PreRecycle(1)),
        Some(CallTag::Recycle),
        Some(CallTag::PostRecycle(0)),
        Some(CallTag::PostRecycle(1)),
        Some(CallTag::Create),
        Some(CallTag::PostCreate(0)),
        Some(CallTag::PostCreate(1)),
    ];
    for max_size in 1..=3usize {
        for lifo in [false, true] {
            for hooks_async in [true, false] {
                for base in 0..6 {
                    // prefix building the base state
                    let mut prefix: Vec<Op> = Vec::new();
                    match base {
                        0 => {}
                        1 => {
                            for _ in 0..max_size {
                                prefix.push(plain);
                            }
                            for _ in 0..max_size {
                                prefix.push(Op::Return { slot: 0, unwinding: false });
                            }
                        }
                        2 => {
                            for _ in 0..max_size {
                                prefix.push(plain);
                            }
                        }
                        3 => {
                            for _ in 0..max_size {
                                prefix.push(plain);
                            }
                            prefix.push(Op::Return { slot: 0, unwinding: false });
                        }
                        4 => {
                            prefix.push(plain);
                            prefix.push(Op::Return { slot: 0, unwinding: false });
                            prefix.push(get(
                                Some(OpFault {
                                    at: CallTag::Recycle,
                                    outcome: Outcome { kind: OKind::ErrBackend, mode: OMode::Immediate },
                                }),
                                None,
                                false,
                            ));
                            prefix.push(Op::Return { slot: 0, unwinding: false });
                        }
                        _ => {
                            for _ in 0..max_size {
                                prefix.push(plain);
                            }
                            prefix.push(Op::Take { slot: 0, detach_panics: false });
                            for _ in 1..max_size {
                                prefix.push(Op::Return { slot: 0, unwinding: false });
                            }
                            prefix.push(Op::Retain { pred: Pred::FirstN(1) });
                        }
                    }
                    for pt in &points {
                        for mode in 0..4 {
                            // 0 drop future, 1 enclosing timeout, 2 awaited future panics, 3 call panics
                            if pt.is_none() && mode >= 2 {
                                continue;
                            }
                            if !hooks_async && mode < 3 && matches!(pt, Some(CallTag::PreRecycle(_)) | Some(CallTag::PostRecycle(_)) | Some(CallTag::PostCreate(_))) {
                                continue; // sync hooks have no suspension point; only "call panics"
                            }
                            let kind = match mode {
                                0 | 1 => OKind::Never,
                                2 => OKind::Panic,
                                _ => OKind::PanicCall,
                            };
                            let fault = pt.map(|at| OpFault {
                                at,
                                outcome: Outcome { kind, mode: OMode::Immediate },
                            });
                            let target = get(fault, if mode == 1 { Some(5) } else { None }, mode == 0);
                            let mut ops = prefix.clone();
                            ops.push(target);
                            // follow-up traffic: the pool must keep working
                            ops.push(Op::Return { slot: 0, unwinding: false });
                            ops.push(plain);
                            let sc = MScenario {
                                profile: "C03".into(),
                                pool: PoolCfg {
                                    max_size,
                                    lifo,
                                    wait: None,
                                    create: None,
                                    recycle: None,
                                    runtime: true,
                                    post_create: vec![hooks_async; 2],
                                    pre_recycle: vec![hooks_async; 2],
                                    post_recycle: vec![hooks_async; 2],
                                },
                                actors: vec![ops],
                                outcomes: Outcomes::default(),
                                knobs: Knobs { p_cancel: 0, ..Knobs::default() },
                                sched_seed: 1,
                                drop_handles_first: false,
                                rest_every: 0,
                            };
                            out.push(sc);
                        }
                    }
                }
            }
        }
    }
    out
}


/// C10 sub-grid: pool-level x per-call timeouts in {none, zero, finite}^3 x {runtime, none},
/// each against an empty, an idle and an exhausted pool (single task, sequential).
pub fn c10_grid() -> Vec<MScenario> {
    use crate::engine::Knobs;
    let vals: [Option<u64>; 3] = [None, Some(0), Some(10)];
    let plain = Op::Get { t: GetT::Explicit { wait: Some(0), create: None, recycle: None }, fault: None, enclosing: None, cancellable: false };
    let mut out = Vec::new();
    for runtime in [true, false] {
        for pw in vals {
            for pc in vals {
                for pr in vals {
                    // per-call: inherit, or one explicit triple chosen to cover all 27 over the pool-level loop
                    let mut calls: Vec<GetT> = vec![GetT::Inherit];
                    for cw in vals {
                        for cc in vals {
                            for cr in vals {
                                calls.push(GetT::Explicit { wait: cw, create: cc, recycle: cr });
                            }
                        }
                    }
                    // keep the grid affordable: all 28 call variants only for pool-level none/none/none
                    // and for the diagonal; otherwise inherit + 3 representative explicit variants
                    let full = (pw.is_none() && pc.is_none() && pr.is_none()) || (pw == pc && pc == pr);
                    if !full {
                        calls = vec![
                            GetT::Inherit,
                            GetT::Explicit { wait: Some(0), create: Some(10), recycle: Some(10) },
                            GetT::Explicit { wait: Some(10), create: None, recycle: None },
                            GetT::Explicit { wait: None, create: Some(0), recycle: Some(0) },
                        ];
                    }
                    for t in calls {
                        for base in 0..3 {
                            let mut ops = Vec::new();
                            match base {
                                0 => {}
                                1 => {
                                    ops.push(plain);
                                    ops.push(Op::Return { slot: 0, unwinding: false });
                                }
                                _ => {
                                    ops.push(plain);
                                }
                            }
                            ops.push(Op::Get { t, fault: None, enclosing: None, cancellable: false });
                            ops.push(Op::Status);
                            out.push(MScenario {
                                profile: "C10".into(),
                                pool: PoolCfg {
                                    max_size: 1,
                                    lifo: false,
                                    wait: pw,
                                    create: pc,
                                    recycle: pr,
                                    runtime,
                                    post_create: vec![],
                                    pre_recycle: vec![],
                                    post_recycle: vec![],
                                },
                                actors: vec![ops],
                                outcomes: Outcomes::default(),
                                knobs: Knobs::default(),
                                sched_seed: 1,
                                drop_handles_first: false,
                                rest_every: 0,
                            });
                        }
                    }
                }
            }
        }
    }
    out
}

/// Long single-thread histories for C08: the reuse order has to hold on the hundredth hand-out as
/// on the first (k objects idle at once, then many get / return cycles that keep the rest idle).
pub fn c08_grid() -> Vec<MScenario> {
    use crate::engine::Knobs;
    let get = Op::Get { t: GetT::Inherit, fault: None, enclosing: None, cancellable: false };
    let mut out = Vec::new();
    for lifo in [false, true] {
        for k in [2usize, 3, 5] {
            for hold in [1usize, 2] {
                if hold >= k {
                    continue;
                }
                let mut ops = Vec::new();
                for _ in 0..k {
                    ops.push(get);
                }
                for _ in 0..k {
                    ops.push(Op::Return { slot: 0, unwinding: false });
                }
                for _ in 0..70 {
                    for _ in 0..hold {
                        ops.push(get);
                    }
                    for _ in 0..hold {
                        ops.push(Op::Return { slot: 0, unwinding: false });
                    }
                }
                out.push(MScenario {
                    profile: "C08".into(),
                    pool: PoolCfg {
                        max_size: k,
                        lifo,
                        wait: None,
                        create: None,
                        recycle: None,
                        runtime: true,
                        post_create: vec![],
                        pre_recycle: vec![],
                        post_recycle: vec![],
                    },
                    actors: vec![ops],
                    outcomes: Outcomes::default(),
                    knobs: Knobs::default(),
                    sched_seed: 1,
                    drop_handles_first: false,
                    rest_every: 0,
                });
            }
        }
    }
    out
}
