//! Oracles of the managed-pool world. Each clause belongs to exactly one
//! property and is only evaluated when the scenario's profile is that property.
//! Ground truth comes from the ledger in `mworld`, never from the pool's counters;
//! the pool's own figures (status(), guarded snapshot) are what is being judged.

use std::collections::BTreeMap;

use deadpool::managed::{PoolError, Timeouts};

use crate::engine::{self, AState, SimInfo, Violation, CONTROLLER};
use crate::mtypes::*;
use crate::mworld::*;

pub struct OracleState {
    pub idle_prev: Vec<u32>,
    pub site_log_pos: usize,
    pub wake_log_pos: usize,
    /// step at which close() returned
    pub closed_step: Option<u64>,
    pub close_invoked: bool,
    pub shrunk: bool,
    pub rest_points: u64,
    pub quiescent_points: u64,
    pub abstract_states: BTreeMap<(usize, usize, usize, usize, usize, usize, bool), u64>,
    pub max_concurrent_gets: usize,
    /// C08 reference queue: idle ids, longest idle first
    pub idle_stamp: BTreeMap<u32, u64>,
    pub last_op_of_actor: BTreeMap<usize, usize>,
    /// whether idle_prev reflects the books at the end of the previous step
    pub idle_prev_valid: bool,
    /// idle ids at the start of the step in which a retain() ran its predicate (per op)
    pub retain_idle_at_lock: BTreeMap<usize, Vec<u32>>,
    /// retain() calls in flight, and whether the idle queue was (or may have been) empty at some
    /// moment of the call
    pub retain_open: BTreeMap<usize, bool>,
    /// status() calls of actors in flight -> (most callers inside get(), most objects existing or
    /// being created) at any instant of the call so far
    pub status_open: BTreeMap<usize, (usize, usize)>,
    pub last_run_step: BTreeMap<usize, u64>,
    /// objects idle right before close() was invoked
    pub idle_at_close: Vec<u32>,
    pub closer: Option<usize>,
    /// gets that must observe Closed (waiting, un-woken, parked when close() returned)
    pub must_close: Vec<usize>,
    /// resize bookkeeping: ops in progress and the step the last one returned
    pub resizes_in_progress: usize,
    pub last_resize_done: Option<u64>,
    pub parked_pending: std::collections::BTreeSet<usize>,
    /// C07: (limit, objects counted so far, returns still in flight)
    pub deferred_admissions: Vec<(usize, usize, Vec<u32>)>,
    /// overlapping resizes whose order could not be read off the books yet
    pub max_ambiguous: Option<Vec<usize>>,
    /// largest resize target invoked so far (whether or not that resize has returned)
    pub max_target_invoked: usize,
    pub min_target_invoked: Option<usize>,
}

impl Default for OracleState {
    fn default() -> Self {
        OracleState {
            idle_prev: Vec::new(),
            site_log_pos: 0,
            wake_log_pos: 0,
            closed_step: None,
            close_invoked: false,
            shrunk: false,
            rest_points: 0,
            quiescent_points: 0,
            abstract_states: BTreeMap::new(),
            max_concurrent_gets: 0,
            idle_stamp: BTreeMap::new(),
            last_op_of_actor: BTreeMap::new(),
            idle_prev_valid: false,
            retain_idle_at_lock: BTreeMap::new(),
            retain_open: BTreeMap::new(),
            status_open: BTreeMap::new(),
            last_run_step: BTreeMap::new(),
            idle_at_close: Vec::new(),
            closer: None,
            must_close: Vec::new(),
            resizes_in_progress: 0,
            last_resize_done: None,
            parked_pending: Default::default(),
            deferred_admissions: Vec::new(),
            max_ambiguous: None,
            max_target_invoked: 0,
            min_target_invoked: None,
        }
    }
}

fn is(w: &MWorld, p: &str) -> bool {
    w.sc.profile == p
}

/// Slots that can still be acquired: available permits minus those owed to a shrink.
pub fn eff(s: &deadpool::managed::VerifSnapshot) -> isize {
    s.permits as isize - s.debt as isize
}

pub struct Snap {
    pub s: deadpool::managed::VerifSnapshot,
    pub idle: Vec<u32>,
}

pub fn snapshot(w: &MWorld) -> Option<Snap> {
    let pool = w.pool.as_ref()?;
    let mut idle = Vec::new();
    let s = pool.verif_snapshot(&mut |o: &SimObj, _m| idle.push(o.id))?;
    Some(Snap { s, idle })
}

// ---- callbacks from the world (ledger events) --------------------------------

pub fn on_call(w: &mut MWorld, ci: usize) {
    let kind = w.calls[ci].kind;
    if is(w, "C08") && !w.draining {
        c08_attempt_target(w, ci);
        c08_on_call(w, ci);
    }
    if is(w, "C13") {
        c13_on_call(w, ci);
    }
    if is(w, "C09") && kind == CallKind::Pred {
        // judged at the moment of the call: never a checked-out object
        if let Some(id) = w.calls[ci].obj {
            if w.objs[id as usize].holder.is_some() {
                w.violate("C09", "retain_never_touches_checked_out", format!("predicate was called for checked-out object #{id}"));
            }
        }
    }
    if is(w, "C07") && kind == CallKind::Create {
        c07_on_create(w, ci);
    }
    if kind == CallKind::Create && is(w, "C01") && !w.draining {
        let n = w.n_live() + w.n_inflight_creates() + 1;
        if n > w.sc.pool.max_size {
            let d = format!(
                "Manager::create called while {} objects exist or are being created (max_size {})",
                n - 1,
                w.sc.pool.max_size
            );
            w.violate("C01", "create_over_limit", d);
        }
    }
}

/// A manager / hook call finished (resolved, panicked or its future was dropped).
pub fn on_call_end(w: &mut MWorld, ci: usize) {
    let c = &w.calls[ci];
    let failed = !matches!(c.res, CallRes::Ok);
    match c.kind {
        CallKind::Recycle | CallKind::PreRecycle(_) | CallKind::PostRecycle(_) | CallKind::PostCreate(_) => {
            if failed {
                if let Some(id) = c.obj {
                    w.objs[id as usize].dead = true;
                }
            }
        }
        _ => {}
    }
}
pub fn on_get_invoke(w: &mut MWorld, _opi: usize) {
    if is(w, "C03") || is(w, "C10") {
        c03_on_invoke(w, _opi);
    }
    if is(w, "C10") {
        c10_track_zero_wait(w);
    }
    let n = w
        .ops
        .iter()
        .filter(|o| matches!(o.op, Op::Get { .. }) && o.return_step.is_none())
        .count();
    if n > w.orc.max_concurrent_gets {
        w.orc.max_concurrent_gets = n;
    }
}
pub fn on_get_return(w: &mut MWorld, opi: usize) {
    let res = w.ops[opi].result.clone().unwrap();
    if let OpRes::Panicked { injected, msg } = &res {
        let expected = *injected
            && w.ops[opi]
                .calls
                .iter()
                .any(|c| w.calls[*c].res == CallRes::Panic);
        if !expected {
            let d = format!("get() panicked: {msg}");
            // a panic raised by the harness's own code is a harness error, not a verdict
            let p = if msg.contains(" at dsim/src/") || msg.contains(" at simcore/") { "HARNESS".to_string() } else { w.sc.profile.clone() };
            w.violate(&p, "unexpected_panic", d);
        }
    }
    if res == OpRes::GetErr(ErrV::Closed) && !w.orc.close_invoked && !w.draining {
        let p = w.sc.profile.clone();
        w.violate(&p, "closed_only_when_closed", "get() returned Closed on a pool that was never closed".into());
    }
    if is(w, "C03") && !w.draining {
        if let Some(v) = c03_on_return(w, opi) {
            if w.pending_violation.is_none() {
                w.pending_violation = Some(v);
            }
        }
    }
    if is(w, "C07") && !w.draining {
        if let Some(v) = c07_on_handout(w, opi) {
            if w.pending_violation.is_none() {
                w.pending_violation = Some(v);
            }
        }
    }
    if is(w, "C10") && !w.draining {
        if let Some(v) = c10_get_return(w, opi) {
            if w.pending_violation.is_none() {
                w.pending_violation = Some(v);
            }
        }
    }
    if is(w, "C06") && !w.draining {
        if let Some(v) = c06_get_return(w, opi) {
            if w.pending_violation.is_none() {
                w.pending_violation = Some(v);
            }
        }
    }
    if is(w, "C04") {
        if let Some(v) = c04_check_get(w, opi) {
            if w.pending_violation.is_none() {
                w.pending_violation = Some(v);
            }
        }
    }
}
pub fn on_return_invoke(_w: &mut MWorld, _opi: usize, _id: u32) {}
pub fn on_return_done(w: &mut MWorld, opi: usize, _id: u32) {
    check_sync_panic(w, opi);
    if w.ops[opi].actor != CONTROLLER && !w.draining {
        let v = if is(w, "C07") {
            c07_return_done(w, opi, _id)
        } else if is(w, "C06") {
            c06_return_done(w, opi, _id)
        } else {
            None
        };
        if let Some(v) = v {
            if w.pending_violation.is_none() {
                w.pending_violation = Some(v);
            }
        }
    }
}
pub fn on_take_invoke(w: &mut MWorld, opi: usize, _id: u32) {
    if is(w, "C09") {
        c03_on_invoke(w, opi);
    }
}
pub fn on_take_done(w: &mut MWorld, opi: usize, _id: u32) {
    check_sync_panic(w, opi);
    if is(w, "C09") && !w.draining {
        if let Some(v) = c09_take_done(w, opi, _id) {
            if w.pending_violation.is_none() {
                w.pending_violation = Some(v);
            }
        }
    }
}
pub fn on_metrics_reported(w: &mut MWorld, id: u32, m: MSeen) {
    if is(w, "C13") {
        if let Some(l) = w.objs[id as usize].last_reported {
            if l != m {
                w.violate("C13", "metrics_stable_while_held", format!("Object::metrics() of held object #{id} changed between two observations"));
            }
        }
    }
    w.objs[id as usize].last_reported = Some(m);
}
pub fn on_resize_invoke(w: &mut MWorld, opi: usize, n: usize) {
    // a shrink may show from the moment it is invoked (status() sampled while it runs);
    // with overlapping resizes any target below any earlier limit counts
    let hi = w.max_size_log.iter().map(|x| x.1).max().unwrap_or(0).max(w.orc.max_target_invoked);
    if n < hi {
        w.orc.shrunk = true;
    }
    w.orc.max_target_invoked = w.orc.max_target_invoked.max(n);
    w.orc.min_target_invoked = Some(w.orc.min_target_invoked.map(|m| m.min(n)).unwrap_or(n));
    c07_resize_invoke(w, opi);
}
pub fn on_resize_done(w: &mut MWorld, opi: usize, n: usize, closed: bool) {
    check_sync_panic(w, opi);
    if !closed && w.orc.closed_step.is_none() {
        let cur = w.cur_max_size();
        if n < cur {
            w.orc.shrunk = true;
        }
        // Overlapping resizes: the one that took the lock last wins, which need not be the one
        // that returns last. Both orders are legal, so the pool's own max_size decides between
        // the candidates.
        let me = w.ops[opi].clone();
        let mut candidates = vec![n];
        for o in w.ops.iter() {
            if let Op::Resize { n: other } = o.op {
                if o.actor != me.actor && o.return_step.unwrap_or(u64::MAX) >= me.invoke_step && o.invoke_step <= engine::current_step() {
                    candidates.push(other);
                }
            }
        }
        let mut effective = n;
        if candidates.len() > 1 {
            match snapshot(w) {
                Some(sn) if candidates.contains(&sn.s.max_size) => effective = sn.s.max_size,
                Some(_) => {}
                // books locked right now: resolved at the next step at which they can be read
                None => w.orc.max_ambiguous = Some(candidates.clone()),
            }
        }
        if effective < cur {
            w.orc.shrunk = true;
        }
        w.max_size_log.push((engine::current_step(), effective));
    }
    let v = c07_resize_done(w, opi, n, closed);
    if is(w, "C07") && !w.draining {
        if let Some(v) = v {
            if w.pending_violation.is_none() {
                w.pending_violation = Some(v);
            }
        }
    }
}
pub fn on_close_invoke(w: &mut MWorld, _opi: usize) {
    c06_close_invoke(w, _opi);
    w.orc.close_invoked = true;
    // a closing pool may already report max_size 0
    w.orc.shrunk = true;
}
pub fn on_close_done(w: &mut MWorld, opi: usize) {
    check_sync_panic(w, opi);
    if w.orc.closed_step.is_none() {
        w.orc.closed_step = Some(engine::current_step());
        w.max_size_log.push((engine::current_step(), 0));
        let v = c06_close_done(w, opi);
        if is(w, "C06") && !w.draining {
            if let Some(v) = v {
                if w.pending_violation.is_none() {
                    w.pending_violation = Some(v);
                }
            }
        }
    }
}
fn status_bounds(w: &MWorld) -> (usize, usize) {
    let existing = w.objs.iter().filter(|o| o.destroyed.is_none()).count();
    (gets_in_progress(w).len() + if w.ctl_op.is_some() { 1 } else { 0 }, existing + w.n_inflight_creates())
}
pub fn on_status_invoke(w: &mut MWorld, opi: usize) {
    if is(w, "C11") {
        let b = status_bounds(w);
        let _ = w.orc.status_open.insert(opi, b);
    }
}
/// A status() that runs while other threads are inside the pool: the figures it returns must be
/// plausible for some instant of the call.
pub fn on_status_done(w: &mut MWorld, opi: usize) {
    let Some((in_get, objs)) = w.orc.status_open.remove(&opi) else { return };
    let now = status_bounds(w);
    let (in_get, objs) = (in_get.max(now.0), objs.max(now.1));
    if let Some(OpRes::Status(st)) = w.ops[opi].result.clone() {
        if st.waiting > in_get {
            w.violate("C11", "waiting_le_in_get", format!("status() returned waiting = {} but at most {} callers were inside get() at any instant of the call ({:?})", st.waiting, in_get, st));
        } else if st.size > objs {
            w.violate("C11", "size_le_existing", format!("status() returned size = {} but at most {} objects existed or were being created at any instant of the call ({:?})", st.size, objs, st));
        } else if st.available > st.size {
            w.violate("C11", "available_le_size", format!("{:?}", st));
        } else {
            w.cnt.probe("concurrent_status_judged");
        }
    }
}
pub fn on_retain_invoke(w: &mut MWorld, opi: usize) {
    if is(w, "C09") {
        c03_on_invoke(w, opi);
        // (while another thread holds the pool lock retain() cannot take it: what the queue
        // looks like at such an instant does not matter, the next readable state does)
        let maybe_empty = w.orc.idle_prev_valid && w.orc.idle_prev.is_empty();
        let _ = w.orc.retain_open.insert(opi, maybe_empty);
    }
}
pub fn on_retain_done(w: &mut MWorld, opi: usize) {
    check_sync_panic(w, opi);
    if is(w, "C09") && !w.draining {
        if let Some(v) = c09_retain_done(w, opi) {
            if w.pending_violation.is_none() {
                w.pending_violation = Some(v);
            }
        }
    }
}

fn check_sync_panic(w: &mut MWorld, opi: usize) {
    if let (Op::Take { detach_panics: true, .. }, Some(OpRes::Panicked { injected: true, .. })) = (&w.ops[opi].op, &w.ops[opi].result) {
        // the injected panic of Manager::detach passing through Object::take()
        return;
    }
    if let Some(OpRes::Panicked { msg, .. }) = &w.ops[opi].result {
        let d = format!("{:?} panicked: {}", w.ops[opi].op, msg);
        let p = if msg.contains(" at dsim/src/") || msg.contains(" at simcore/") { "HARNESS".to_string() } else { w.sc.profile.clone() };
        w.violate(&p, "unexpected_panic", d);
    }
}

// ---- helpers -------------------------------------------------------------------

/// Get ops that are in progress (invoked, not returned).
pub fn gets_in_progress(w: &MWorld) -> Vec<usize> {
    w.ops
        .iter()
        .enumerate()
        .filter(|(_, o)| matches!(o.op, Op::Get { .. }) && o.return_step.is_none())
        .map(|(i, _)| i)
        .collect()
}

pub fn op_has_inflight_gate(w: &MWorld, opi: usize) -> bool {
    w.ops[opi]
        .calls
        .iter()
        .any(|c| w.calls[*c].res == CallRes::InFlight)
}

/// Whether the op has made any manager / hook call (=> it got past the wait phase).
pub fn op_made_calls(w: &MWorld, opi: usize) -> bool {
    !w.ops[opi].calls.is_empty()
}

fn absorb_site_log(w: &mut MWorld) {
    let new = engine::site_log_since(w.orc.site_log_pos);
    w.orc.site_log_pos += new.len();
    let permit = engine::site_index("managed.get.permit").unwrap() as u16;
    let pre_acquire = engine::site_index("sync.sem.pre_acquire").unwrap() as u16;
    let post_unlock = engine::site_index("sync.mutex.post_unlock").unwrap() as u16;
    let post_acquire = engine::site_index("sync.sem.post_acquire").unwrap() as u16;
    for (step, actor, site) in new {
        if (site == pre_acquire || site == post_acquire) && actor != CONTROLLER {
            if let Some(Some(opi)) = w.cur_op.get(actor) {
                w.ops[*opi].sem_waiting = site == pre_acquire;
            }
        }
        if site == post_unlock && actor != CONTROLLER && w.orc.idle_prev_valid {
            // a lock region of this actor ended in this step: remember the idle queue as it
            // was when the step began (C08: what a get found when it looked for an idle object)
            if let Some(Some(opi)) = w.cur_op.get(actor) {
                let opi = *opi;
                if step == engine::current_step() {
                    w.ops[opi].last_lock_idle = Some(w.orc.idle_prev.clone());
                }
            }
        }
        if site == pre_acquire && actor != CONTROLLER {
            // the wait timer of a blocking get is created in the very step that reaches the
            // semaphore for the first time
            if let Some(Some(opi)) = w.cur_op.get(actor) {
                let opi = *opi;
                if matches!(w.ops[opi].op, Op::Get { .. }) && w.ops[opi].wait_start_ms.is_none() {
                    w.ops[opi].wait_start_ms = Some(engine::now_ms());
                    if let Some(ms) = w.ops[opi].eff.0 {
                        if ms > 0 {
                            engine::register_deadline(ms);
                        }
                    }
                }
            }
        }
        if site == permit && actor != CONTROLLER {
            if let Some(Some(opi)) = w.cur_op.get(actor) {
                if w.ops[*opi].permit_step.is_none() {
                    w.ops[*opi].permit_step = Some(step);
                }
            }
        }
    }
}

// ---- per-step oracles ------------------------------------------------------------

pub fn after_step(w: &mut MWorld, _info: &SimInfo) -> Option<Violation> {
    absorb_site_log(w);
    if let Some(v) = w.pending_violation.take() {
        return Some(v);
    }
    let snap = snapshot(w);
    if let crate::engine::Decision::Run(a) | crate::engine::Decision::Cancel(a) | crate::engine::Decision::Spurious(a) = _info.last {
        let _ = w.orc.last_run_step.insert(a, _info.step);
    }
    if snap.is_none() {
        w.orc.idle_prev_valid = false;
    }
    // a get that has just been left pending in its wait phase: its wait timer started in this step
    if let (crate::engine::Decision::Run(a), Some(crate::engine::Yield::Pending)) = (_info.last, _info.last_yield) {
        if let Some(opi) = w.cur_op.get(a).copied().flatten() {
            let op = &w.ops[opi];
            if matches!(op.op, Op::Get { .. }) && op.eff.0 == Some(0) && op.sem_waiting && is(w, "C10") && !w.draining {
                return Some(crate::engine::violation(
                    "C10",
                    "zero_wait_never_pending",
                    "a get() with a zero wait timeout is waiting in a blocking acquire of the semaphore".into(),
                ));
            }
            if matches!(op.op, Op::Get { .. }) && op.calls.is_empty() && op.wait_start_ms.is_none() {
                let wait = op.eff.0;
                w.ops[opi].wait_start_ms = Some(_info.now_ms);
                if let Some(ms) = wait {
                    if ms > 0 {
                        engine::register_deadline(ms);
                    }
                }
            }
        }
    }
    w.orc.parked_pending = _info
        .states
        .iter()
        .enumerate()
        .filter(|(_, s)| **s == AState::Pending)
        .map(|(i, _)| i)
        .collect();
    if is(w, "C10") {
        c10_track_zero_wait(w);
    }
    if is(w, "C01") {
        let live = w.n_live();
        let creating = w.n_inflight_creates();
        let max = w.sc.pool.max_size;
        if live + creating > max {
            return Some(crate::engine::violation(
                "C01",
                "live_over_limit",
                format!("{live} objects exist and {creating} are being created, max_size is {max}"),
            ));
        }
        if w.n_out() > max {
            return Some(crate::engine::violation(
                "C01",
                "out_over_limit",
                format!("{} objects are checked out, max_size is {max}", w.n_out()),
            ));
        }
    }
    if let (Some(sn), Some(c)) = (&snap, w.orc.max_ambiguous.clone()) {
        if w.orc.resizes_in_progress == 0 {
            if c.contains(&sn.s.max_size) && w.orc.closed_step.is_none() {
                w.max_size_log.push((engine::current_step(), sn.s.max_size));
            }
            w.orc.max_ambiguous = None;
        }
    }
    if let Some(sn) = &snap {
        // abstract state coverage
        let blocked = _info
            .states
            .iter()
            .filter(|s| **s == AState::Pending)
            .count();
        let key = (
            sn.s.max_size,
            sn.s.permits,
            sn.s.size,
            sn.s.idle,
            sn.s.users,
            blocked,
            sn.s.closed,
        );
        *w.orc.abstract_states.entry(key).or_insert(0) += 1;
        if is(w, "C11") {
            if let Some(v) = c11_plausible(w, sn) {
                return Some(v);
            }
        }
        if is(w, "C06") && !w.draining {
            if let Some(v) = c06_step(w, sn) {
                return Some(v);
            }
        }
        if is(w, "C08") && !w.draining {
            if let Some(v) = c08_step(w, _info, sn) {
                return Some(v);
            }
        }
        if sn.idle.is_empty() {
            for v in w.orc.retain_open.values_mut() {
                *v = true;
            }
        }
    }
    if !w.orc.status_open.is_empty() {
        let b = status_bounds(w);
        for v in w.orc.status_open.values_mut() {
            v.0 = v.0.max(b.0);
            v.1 = v.1.max(b.1);
        }
    }
    if let Some(sn) = &snap {
        w.orc.idle_prev = sn.idle.clone();
        w.orc.idle_prev_valid = true;
    }
    None
}

fn status_of(w: &MWorld) -> Option<StatusV> {
    w.pool.as_ref().map(|p| p.status().into())
}

fn c11_plausible(w: &mut MWorld, _sn: &Snap) -> Option<Violation> {
    let st = status_of(w)?;
    // objects that physically exist and that the pool may still be counting
    let existing = w
        .objs
        .iter()
        .filter(|o| o.destroyed.is_none())
        .count();
    let creating = w.n_inflight_creates();
    let in_get = gets_in_progress(w).len() + if w.ctl_op.is_some() { 1 } else { 0 };
    let bound = w.sc.pool.max_size
        + w.max_size_log.iter().map(|x| x.1).max().unwrap_or(0)
        + w.sc.actors.len()
        + w.objs.len()
        + 8;
    let mk = |clause: &str, d: String| Some(crate::engine::violation("C11", clause, d));
    if st.size > existing + creating {
        return mk(
            "size_le_existing",
            format!("status().size = {} but only {} objects exist and {} are being created ({:?})", st.size, existing, creating, st),
        );
    }
    if st.available > st.size {
        return mk("available_le_size", format!("{:?}", st));
    }
    if st.waiting > in_get {
        return mk(
            "waiting_le_in_get",
            format!("status().waiting = {} but only {} callers are inside get() ({:?})", st.waiting, in_get, st),
        );
    }
    if st.size > bound || st.available > bound || st.waiting > bound || st.max_size > bound {
        return mk("no_wrap", format!("{:?}", st));
    }
    // a shrink is any resize target (or close) below any limit that was ever configured or
    // requested, in whatever order the overlapping calls took effect
    let shrink_possible = w.orc.shrunk || w.orc.min_target_invoked.map(|lo| lo < w.orc.max_target_invoked.max(w.sc.pool.max_size)).unwrap_or(false);
    if st.size > st.max_size && !shrink_possible {
        return mk(
            "size_le_max_without_shrink",
            format!("{:?} and no shrink has happened", st),
        );
    }
    None
}

// ---- quiescence -----------------------------------------------------------------

pub struct Waiters {
    /// pending get ops still in the wait phase
    pub waiting: Vec<usize>,
    /// in-progress get ops past the wait phase
    pub past: Vec<usize>,
}

pub fn classify_gets(w: &MWorld) -> Waiters {
    let mut r = Waiters {
        waiting: vec![],
        past: vec![],
    };
    for opi in gets_in_progress(w) {
        if op_has_inflight_gate(w, opi) || op_made_calls(w, opi) {
            r.past.push(opi);
        } else {
            r.waiting.push(opi);
        }
    }
    r
}

pub fn quiescent(w: &mut MWorld, info: &SimInfo) -> Option<Violation> {
    absorb_site_log(w);
    w.orc.quiescent_points += 1;
    if let Some(v) = w.pending_violation.take() {
        return Some(v);
    }
    let wt = classify_gets(w);
    let closed = w.orc.closed_step.is_some();
    if is(w, "C02") || is(w, "C03") || is(w, "C07") {
        let pid = w.sc.profile.clone();
        if !closed && !w.orc.close_invoked {
            let free = w
                .cur_max_size()
                .saturating_sub(w.n_out())
                .saturating_sub(wt.past.len());
            if !wt.waiting.is_empty() && free > 0 {
                w.cnt.probe("stranded_waiter_detected");
                return Some(crate::engine::violation(
                    &pid,
                    "stranded_waiter",
                    format!(
                        "no task is runnable, {} caller(s) wait for a slot although {} slot(s) are free (max_size {}, {} checked out, {} gets in create/recycle)",
                        wt.waiting.len(),
                        free,
                        w.cur_max_size(),
                        w.n_out(),
                        wt.past.len()
                    ),
                ));
            }
            if !wt.waiting.is_empty() {
                w.cnt.probe("justified_waiter_at_quiescence");
            }
        }
        if closed && !wt.waiting.is_empty() {
            return Some(crate::engine::violation(
                &pid,
                "waiter_on_closed_pool",
                format!("{} caller(s) still wait for a slot after close() returned", wt.waiting.len()),
            ));
        }
    }
    if is(w, "C10") {
        if let Some(v) = c10_quiescent(w, info.now_ms) {
            return Some(v);
        }
    }
    // rest point: nobody is past the wait phase, every other actor is between ops
    let rest = wt.past.is_empty()
        && info
            .states
            .iter()
            .all(|s| matches!(s, AState::Pending | AState::Done));
    if rest {
        w.orc.rest_points += 1;
        if is(w, "C06") {
            if let Some(v) = c06_rest(w, "rest") {
                return Some(v);
            }
        }
        if is(w, "C11") {
            if let Some(v) = c11_exact(w, &wt, "rest") {
                return Some(v);
            }
        }
    }
    None
}

pub fn c11_exact(w: &mut MWorld, wt: &Waiters, when: &str) -> Option<Violation> {
    let st = status_of(w)?;
    let out = w.n_out();
    let live = w.n_live();
    let idle = live - out;
    let exp = StatusV {
        max_size: w.cur_max_size(),
        size: live,
        available: idle,
        waiting: wt.waiting.len(),
    };
    if st != exp {
        return Some(crate::engine::violation(
            "C11",
            "exact_at_rest",
            format!("at {when} point status() = {:?}, ground truth = {:?}", st, exp),
        ));
    }
    None
}

// ---- epilogue ---------------------------------------------------------------------

/// Capacity probe through the public API on the controller's stack.
/// Returns Err(description) if the pool does not hand out exactly `expect` objects.
pub fn capacity_probe(w_pool: &SPool, expect: usize, closed: bool) -> Result<(), String> {
    let t = Timeouts {
        wait: Some(std::time::Duration::ZERO),
        create: None,
        recycle: None,
    };
    let mut got: Vec<SObject> = Vec::new();
    let mut problem = None;
    for i in 0..=expect {
        let opi = with_w(|w| w.op_invoke(CONTROLLER, 9000 + i, Op::Nop));
        let mut fut = Box::pin(w_pool.timeout_get(&t));
        // the probe runs on the controller: a get() that blocks on the pool's own lock (a lock
        // taken twice on one path) cannot be scheduled around and is reported, not a harness error
        let r = match std::panic::catch_unwind(std::panic::AssertUnwindSafe(|| engine::poll_once(fut.as_mut()))) {
            Ok(r) => r,
            Err(p) => {
                let msg = p
                    .downcast_ref::<String>()
                    .cloned()
                    .or_else(|| p.downcast_ref::<&str>().map(|s| s.to_string()))
                    .unwrap_or_default();
                if !msg.contains("controller would block on a lock") {
                    std::panic::resume_unwind(p);
                }
                std::mem::forget(fut);
                with_w(|w| w.op_return(opi, OpRes::Cancelled));
                return Err(format!(
                    "probe: get #{i} on the quiescent pool blocks on a lock nobody else holds (self-deadlock)"
                ));
            }
        };
        drop(fut);
        let res;
        match r {
            std::task::Poll::Ready(Ok(o)) => {
                let id = o.id;
                res = OpRes::GetOk(id);
                if closed {
                    problem = Some(format!("probe get #{i} on a closed pool returned object #{id}"));
                } else if i == expect {
                    problem = Some(format!(
                        "probe: {} objects could be held at once, expected exactly {}",
                        i + 1,
                        expect
                    ));
                }
                got.push(o);
            }
            std::task::Poll::Ready(Err(e)) => {
                let ev = err_v(&e);
                res = OpRes::GetErr(ev.clone());
                if closed {
                    if !matches!(e, PoolError::Closed) {
                        problem = Some(format!("probe get on a closed pool returned {:?}", ev));
                    }
                } else if i < expect {
                    problem = Some(format!(
                        "probe: only {} objects could be obtained, expected {} (get #{} failed with {:?})",
                        i, expect, i, ev
                    ));
                } else if ev != ErrV::TimeoutWait {
                    problem = Some(format!("probe: surplus get returned {:?} instead of Timeout(Wait)", ev));
                }
            }
            std::task::Poll::Pending => {
                res = OpRes::Cancelled;
                problem = Some(format!("probe: non-blocking get #{i} returned Pending"));
            }
        }
        with_w(|w| w.op_return(opi, res));
        if problem.is_some() {
            break;
        }
    }
    let opi = with_w(|w| w.op_invoke(CONTROLLER, 9999, Op::Nop));
    drop(got);
    with_w(|w| w.op_return(opi, OpRes::Unit));
    match problem {
        Some(p) => Err(p),
        None => Ok(()),
    }
}

/// Checks after everything has drained (all objects returned, nobody inside get()).
pub fn final_checks(w: &mut MWorld, probe_err: Option<String>) -> Option<Violation> {
    if let Some(v) = w.pending_violation.take() {
        return Some(v);
    }
    let p = w.sc.profile.clone();
    let closed = w.orc.closed_step.is_some();
    if let Some(e) = probe_err {
        let prop = match p.as_str() {
            "C02" | "C03" | "C07" | "C09" => p.as_str(),
            _ => "C02",
        };
        return Some(crate::engine::violation(prop, "capacity_probe", e));
    }
    if let Some(sn) = snapshot(w) {
        if p == "C06" {
            if let Some(v) = c06_rest(w, "end") {
                return Some(v);
            }
        }
        if matches!(p.as_str(), "C02" | "C03" | "C07" | "C09") && !closed {
            let max = w.cur_max_size();
            if eff(&sn.s) != max as isize || sn.s.users != 0 || sn.s.size != sn.s.idle {
                return Some(crate::engine::violation(
                    &p,
                    "books_at_end",
                    format!(
                        "after everything was returned: {} slot(s) can be acquired (max_size {}), users {}, size {}, idle {}",
                        eff(&sn.s), max, sn.s.users, sn.s.size, sn.s.idle
                    ),
                ));
            }
        }
        if p == "C09" {
            if let Some(v) = c09_final(w) {
                return Some(v);
            }
        }
        if p == "C04" {
            if let Some(v) = c04_final(w) {
                return Some(v);
            }
        }
        if p == "C11" {
            let wt = Waiters {
                waiting: vec![],
                past: vec![],
            };
            if let Some(v) = c11_exact(w, &wt, "end") {
                return Some(v);
            }
        }
    }
    None
}

// ---- C04: trace checker over each get's own call log -------------------------------

fn c04(clause: &str, d: String) -> Option<Violation> {
    Some(crate::engine::violation("C04", clause, d))
}

/// Checks the call log of one finished get against `attempt* final`.
pub fn c04_check_get(w: &MWorld, opi: usize) -> Option<Violation> {
    let op = &w.ops[opi];
    let res = op.result.clone()?;
    let cfg = &w.sc.pool;
    let (n_pre, n_post, n_pc) = (
        cfg.pre_recycle.len(),
        cfg.post_recycle.len(),
        cfg.post_create.len(),
    );
    // the get's own calls, detach calls filtered out (they are judged by the detach ledger)
    let calls: Vec<&Call> = op
        .calls
        .iter()
        .map(|c| &w.calls[*c])
        .filter(|c| c.kind != CallKind::Detach)
        .collect();
    let describe = |cs: &[&Call]| -> String {
        cs.iter()
            .map(|c| format!("{}({}):{:?}", c.kind.name(), c.obj.map(|o| o.to_string()).unwrap_or_default(), c.res))
            .collect::<Vec<_>>()
            .join(" ")
    };
    let ended_early = |r: &OpRes| matches!(r, OpRes::Cancelled | OpRes::EnclosingTimeout);
    if let OpRes::GetErr(ErrV::Other(m)) = &res {
        return c04("documented_error_variants", format!("get returned an undocumented error: {m}"));
    }
    if let OpRes::GetErr(ErrV::TimeoutRecycle) = &res {
        return c04("recycle_failures_never_surface", "get returned Timeout(Recycle)".into());
    }
    let mut i = 0;
    loop {
        if i >= calls.len() {
            // no (further) call: the get ended in the wait phase or right after a rejected object
            let ok = match &res {
                OpRes::GetErr(ErrV::TimeoutWait) | OpRes::GetErr(ErrV::Closed) | OpRes::GetErr(ErrV::NoRuntime) => i == 0,
                r if ended_early(r) => true,
                OpRes::Panicked { .. } => true, // judged by unexpected_panic
                _ => false,
            };
            if !ok {
                return c04(
                    "call_sequence",
                    format!("get returned {:?} but its call log ends without a completed attempt: {}", res, describe(&calls)),
                );
            }
            return None;
        }
        let first = calls[i];
        if first.kind == CallKind::Create {
            // final: create -> post_create hooks
            i += 1;
            match first.res {
                CallRes::Err(e, _) => {
                    if res != OpRes::GetErr(ErrV::Backend(e)) {
                        return c04("create_error_surfaces_as_backend", format!("create failed with error #{e} but get returned {:?}", res));
                    }
                    if i != calls.len() {
                        return c04("call_sequence", format!("calls after a failed create: {}", describe(&calls)));
                    }
                    return None;
                }
                CallRes::Panic => {
                    if !matches!(res, OpRes::Panicked { injected: true, .. }) || i != calls.len() {
                        return c04("call_sequence", format!("create panicked but get returned {:?}: {}", res, describe(&calls)));
                    }
                    return None;
                }
                CallRes::Dropped | CallRes::InFlight => {
                    // (a zero timeout polls create() once and gives up if it is not ready at once)
                    let timeout_ok = op.eff.1.is_some() && cfg.runtime;
                    let ok = ended_early(&res)
                        || (res == OpRes::GetErr(ErrV::TimeoutCreate) && timeout_ok)
                        || (res == OpRes::GetErr(ErrV::NoRuntime) && !cfg.runtime && !first.polled);
                    if !ok || i != calls.len() {
                        return c04(
                            "create_timeout_variant",
                            format!("create future was dropped unresolved but get returned {:?} (create timeout {:?}): {}", res, op.eff.1, describe(&calls)),
                        );
                    }
                    return None;
                }
                CallRes::Ok => {}
                _ => return c04("call_sequence", format!("odd create result: {}", describe(&calls))),
            }
            // created object id: from the hook calls or the result
            let mut y: Option<u32> = None;
            for j in 0..n_pc {
                if i >= calls.len() {
                    // hooks missing: only legal if the get was abandoned — impossible between sync steps
                    return c04("post_create_hooks_all_run", format!("post_create hook {j} was not called: {}", describe(&calls)));
                }
                let c = calls[i];
                if c.kind != CallKind::PostCreate(j as u8) {
                    return c04("hook_order", format!("expected post_create[{j}], found {}: {}", c.kind.name(), describe(&calls)));
                }
                if let Some(prev) = y {
                    if c.obj != Some(prev) {
                        return c04("hook_order", format!("post_create hooks applied to different objects: {}", describe(&calls)));
                    }
                }
                y = c.obj;
                i += 1;
                match c.res {
                    CallRes::Ok => {}
                    CallRes::Err(h, msg) => {
                        let exp = if msg { ErrV::PostCreateMsg(h) } else { ErrV::PostCreateBackend(h) };
                        if res != OpRes::GetErr(exp.clone()) {
                            return c04("post_create_error_variant", format!("post_create[{j}] failed with {:?} but get returned {:?}", exp, res));
                        }
                        if i != calls.len() {
                            return c04("hooks_stop_at_first_error", format!("calls after a failed post_create hook: {}", describe(&calls)));
                        }
                        return None;
                    }
                    CallRes::Panic => {
                        if !matches!(res, OpRes::Panicked { injected: true, .. }) || i != calls.len() {
                            return c04("call_sequence", format!("post_create panicked but get returned {:?}", res));
                        }
                        return None;
                    }
                    CallRes::Dropped | CallRes::InFlight => {
                        if !ended_early(&res) || i != calls.len() {
                            return c04("call_sequence", format!("post_create future dropped but get returned {:?}: {}", res, describe(&calls)));
                        }
                        return None;
                    }
                    _ => {}
                }
            }
            if i != calls.len() {
                return c04("call_sequence", format!("calls after the last post_create hook: {}", describe(&calls)));
            }
            match &res {
                OpRes::GetOk(id) => {
                    if let Some(y) = y {
                        if y != *id {
                            return c04("returns_verified_object", format!("hooks verified #{y} but get returned #{id}"));
                        }
                    }
                    if w.objs[*id as usize].created_by_op != Some(opi) {
                        return c04("returns_verified_object", format!("get created an object but returned #{id}, which it did not create"));
                    }
                    return None;
                }
                other => {
                    return c04("all_ok_returns_object", format!("creation and all post_create hooks succeeded but get returned {:?}", other));
                }
            }
        }
        // an attempt on idle object x
        let x = match first.obj {
            Some(x) => x,
            None => return c04("call_sequence", format!("unexpected call {}: {}", first.kind.name(), describe(&calls))),
        };
        let mut expected: Vec<CallKind> = Vec::new();
        for j in 0..n_pre {
            expected.push(CallKind::PreRecycle(j as u8));
        }
        expected.push(CallKind::Recycle);
        for j in 0..n_post {
            expected.push(CallKind::PostRecycle(j as u8));
        }
        let mut all_ok = true;
        for (k, ek) in expected.iter().enumerate() {
            if i >= calls.len() {
                return c04("recycle_steps_all_run", format!("attempt on #{x} stops before {}: {}", ek.name(), describe(&calls)));
            }
            let c = calls[i];
            if c.kind != *ek || c.obj != Some(x) {
                return c04(
                    "hook_order",
                    format!("attempt on #{x}: expected {} as step {k}, found {}({:?}): {}", ek.name(), c.kind.name(), c.obj, describe(&calls)),
                );
            }
            i += 1;
            match c.res {
                CallRes::Ok => {}
                CallRes::Err(..) => {
                    all_ok = false;
                    break;
                }
                CallRes::Panic => {
                    if !matches!(res, OpRes::Panicked { injected: true, .. }) || i != calls.len() {
                        return c04("call_sequence", format!("{} panicked but get returned {:?}", ek.name(), res));
                    }
                    return None;
                }
                CallRes::Dropped | CallRes::InFlight => {
                    let is_recycle_timeout = *ek == CallKind::Recycle && op.eff.2.is_some() && cfg.runtime;
                    if i == calls.len() && ended_early(&res) {
                        return None;
                    }
                    // a per-call recycle timeout on a pool without runtime: the recycle future is
                    // dropped unpolled and the call fails with NoRuntimeSpecified (C10)
                    if *ek == CallKind::Recycle
                        && op.eff.2.is_some()
                        && !cfg.runtime
                        && !c.polled
                        && i == calls.len()
                        && res == OpRes::GetErr(ErrV::NoRuntime)
                    {
                        return None;
                    }
                    if !is_recycle_timeout {
                        return c04(
                            "call_sequence",
                            format!("{} future on #{x} was dropped but the get went on / returned {:?}: {}", ek.name(), res, describe(&calls)),
                        );
                    }
                    all_ok = false;
                    break;
                }
                _ => {}
            }
        }
        if all_ok {
            if i != calls.len() {
                return c04("no_calls_after_success", format!("calls after a fully successful attempt on #{x}: {}", describe(&calls)));
            }
            if res != OpRes::GetOk(x) {
                return c04("all_ok_returns_object", format!("every recycling step of #{x} succeeded but get returned {:?}", res));
            }
            return None;
        }
        // failed attempt: x must never be mentioned again by this get
        if calls[i..].iter().any(|c| c.obj == Some(x)) {
            return c04("rejected_object_not_touched_again", format!("#{x} appears again after a failed step: {}", describe(&calls)));
        }
        if res == OpRes::GetOk(x) {
            return c04("rejected_object_not_returned", format!("get returned #{x} although a recycling step failed"));
        }
        // loop: next attempt / create / end
    }
}

/// End-of-run ledger checks for C04: rejected objects are detached exactly once,
/// destroyed and never mentioned after the failing step; healthy objects are never detached.
pub fn c04_final(w: &MWorld) -> Option<Violation> {
    for (id, o) in w.objs.iter().enumerate() {
        if o.dead {
            if o.detach_steps.len() != 1 {
                return c04(
                    "rejected_object_detached_once",
                    format!("object #{id} failed a recycling/post_create step and was detached {} times", o.detach_steps.len()),
                );
            }
            match o.destroyed {
                None => return c04("rejected_object_discarded", format!("object #{id} failed a step but still exists at the end")),
                Some(d) => {
                    if o.detach_steps[0] > d {
                        return c04("rejected_object_detached_once", format!("object #{id} was detached after it was destroyed"));
                    }
                }
            }
            // no call mentions it after the failing step (other than the detach)
            let fail_idx = w.calls.iter().position(|c| {
                c.obj == Some(id as u32) && c.kind != CallKind::Detach && c.kind != CallKind::Pred && !matches!(c.res, CallRes::Ok)
            });
            if let Some(fi) = fail_idx {
                if let Some(later) = w.calls[fi + 1..].iter().find(|c| c.obj == Some(id as u32) && c.kind != CallKind::Detach) {
                    return c04(
                        "rejected_object_not_touched_again",
                        format!("{} was called for #{id} after one of its recycling steps had failed", later.kind.name()),
                    );
                }
            }
        } else if !o.taken && !o.retain_removed && !o.detach_steps.is_empty() && !w.orc.shrunk {
            return c04("healthy_object_not_detached", format!("object #{id} never failed a step but was detached"));
        }
    }
    None
}

// ---- C08: reuse order, lazy creation, no background work ------------------------------

fn c08(clause: &str, d: String) -> Option<Violation> {
    Some(crate::engine::violation("C08", clause, d))
}

/// Called for every manager / hook / predicate / detach call.
pub fn c08_on_call(w: &mut MWorld, ci: usize) {
    let c = w.calls[ci].clone();
    if c.op.is_none() {
        let d = format!(
            "{} was called outside of any pool operation (by {})",
            c.kind.name(),
            actor_name(c.actor)
        );
        w.violate("C08", "call_outside_operation", d);
        return;
    }
    let opk = w.ops[c.op.unwrap()].op;
    let allowed = match c.kind {
        CallKind::Create | CallKind::Recycle | CallKind::PostCreate(_) | CallKind::PreRecycle(_) | CallKind::PostRecycle(_) => {
            matches!(opk, Op::Get { .. }) || c.actor == CONTROLLER
        }
        CallKind::Pred => matches!(opk, Op::Retain { .. }),
        // the pool lets go of objects in these calls only: not in status(), not when a handle is
        // dropped, not in the background
        CallKind::Detach => {
            matches!(opk, Op::Get { .. } | Op::Return { .. } | Op::Take { .. } | Op::Retain { .. } | Op::Resize { .. } | Op::Close) || c.actor == CONTROLLER
        }
    };
    if !allowed {
        let d = format!("{} was called from inside {:?}", c.kind.name(), opk);
        w.violate("C08", "call_from_wrong_operation", d);
        return;
    }
    if c.kind == CallKind::Create && c.actor != CONTROLLER {
        // lazy creation: the get must have found the idle queue empty when it looked (the lock
        // region in which it popped is the last one of this get before create() is called)
        absorb_site_log(w);
        let found = c.op.and_then(|o| w.ops[o].last_lock_idle.clone());
        if let Some(idle) = found {
            // objects this very get has already tried and rejected do not count
            let tried: Vec<u32> = c.op.map(|o| w.ops[o].calls.iter().filter_map(|ci| w.calls[*ci].obj).collect()).unwrap_or_default();
            let untried: Vec<u32> = idle.iter().copied().filter(|i| !tried.contains(i)).collect();
            if !untried.is_empty() {
                let d = format!("Manager::create called by a get() that found idle objects {:?} and did not try them", untried);
                w.violate("C08", "create_only_when_no_idle", d);
            } else {
                w.cnt.probe("create_with_empty_queue");
            }
        }
    }
}

/// Reference order: every object gets a stamp when it becomes idle after having been in a
/// caller's hands (or after creation); the stamp is cleared when it is handed out again. The
/// longest-idle object is the one with the smallest stamp. Membership of the idle queue is read
/// through the visitor, the order is never read from the pool.
fn c08_heads(w: &MWorld, among: &[u32], n: usize, lifo: bool) -> (Vec<u32>, bool) {
    // the n ids the pool has to offer first, and whether that choice is unambiguous
    let mut v: Vec<(u64, u32)> = among.iter().map(|i| (w.orc.idle_stamp.get(i).copied().unwrap_or(u64::MAX), *i)).collect();
    v.sort();
    if lifo {
        v.reverse();
    }
    let n = n.min(v.len());
    let unambiguous = n == v.len() || n == 0 || v[n - 1].0 != v[n].0;
    (v.iter().take(n).map(|x| x.1).collect(), unambiguous && v.iter().take(n).all(|x| x.0 != u64::MAX))
}

fn c08_step(w: &mut MWorld, info: &SimInfo, sn: &Snap) -> Option<Violation> {
    let prev: Vec<u32> = w.orc.idle_prev.clone();
    let removed: Vec<u32> = prev.iter().copied().filter(|i| !sn.idle.contains(i)).collect();
    let actor = match info.last {
        crate::engine::Decision::Run(a) | crate::engine::Decision::Cancel(a) | crate::engine::Decision::Spurious(a) => Some(a),
        _ => None,
    };
    let lifo = w.sc.pool.lifo;
    // the diff must cover exactly this step (the books were readable after the previous one)
    if !removed.is_empty() && w.orc.idle_prev_valid {
        let by_get = actor
            .and_then(|a| w.cur_op.get(a).copied().flatten().or(w.orc.last_op_of_actor.get(&a).copied()))
            .map(|opi| matches!(w.ops[opi].op, Op::Get { .. }))
            .unwrap_or(false);
        if by_get {
            // the get popped |removed| objects in this step: they must be the longest idle
            // (Fifo) / most recently idle (Lifo) ones of the reference order
            let (expect, sure) = c08_heads(w, &prev, removed.len(), lifo);
            if sure {
                let mut got = removed.clone();
                let mut exp_sorted = expect.clone();
                got.sort();
                exp_sorted.sort();
                if got != exp_sorted {
                    let mut order: Vec<(u64, u32)> = prev.iter().map(|i| (w.orc.idle_stamp.get(i).copied().unwrap_or(0), *i)).collect();
                    order.sort();
                    return c08(
                        "reuse_order",
                        format!(
                            "{} mode: get() took {:?} out of the idle queue; idle objects, longest idle first: {:?}",
                            if lifo { "Lifo" } else { "Fifo" },
                            removed,
                            order.iter().map(|x| x.1).collect::<Vec<_>>()
                        ),
                    );
                }
                w.cnt.probe(if prev.len() > 1 { "order_checked_with_choice" } else { "order_checked_single" });
            }
        }
    }
    // stamp objects that became idle in this step (objects that merely re-appear, e.g. because
    // retain() took the queue out and put it back, keep their stamp)
    let step = info.step;
    for id in &sn.idle {
        let _ = w.orc.idle_stamp.entry(*id).or_insert(step);
    }
    // no background work: the runtime never has a spawned task
    let tasks = tokio::runtime::Handle::current().metrics().num_alive_tasks();
    if tasks != 0 {
        return c08("no_background_tasks", format!("{tasks} task(s) are alive on the runtime although the harness spawns none"));
    }
    None
}

/// The first call of a recycling attempt must target the object the reference order offers.
fn c08_attempt_target(w: &mut MWorld, ci: usize) {
    let c = w.calls[ci].clone();
    let first_kind = if w.sc.pool.pre_recycle.is_empty() {
        CallKind::Recycle
    } else {
        CallKind::PreRecycle(0)
    };
    if c.kind != first_kind || !w.orc.idle_prev_valid {
        return;
    }
    // Popped within this step (still listed in the books read after the previous step): it must
    // be the head among them. Objects popped in an earlier step were judged by the per-step rule.
    let Some(x) = c.obj else { return };
    if w.orc.idle_prev.contains(&x) {
        let lifo = w.sc.pool.lifo;
        let (head, sure) = c08_heads(w, &w.orc.idle_prev, 1, lifo);
        if sure && head.first() != Some(&x) {
            let mut order: Vec<(u64, u32)> = w.orc.idle_prev.iter().map(|i| (w.orc.idle_stamp.get(i).copied().unwrap_or(0), *i)).collect();
            order.sort();
            let d = format!(
                "{} mode: recycling attempt targets #{x}; idle objects, longest idle first: {:?}",
                if lifo { "Lifo" } else { "Fifo" },
                order.iter().map(|x| x.1).collect::<Vec<_>>()
            );
            w.violate("C08", "reuse_order", d);
            return;
        }
        // judged: a second pop in the same step is compared with the rest
        w.orc.idle_prev.retain(|i| *i != x);
        let _ = w.orc.idle_stamp.remove(&x);
        if sure {
            w.cnt.probe("order_checked_at_first_call");
        }
    }
}

// ---- C13: per-object metrics ------------------------------------------------------------

fn c13v(w: &mut MWorld, clause: &str, d: String) {
    w.violate("C13", clause, d);
}

pub fn c13_on_handout(w: &mut MWorld, id: u32, m: MSeen, prev: Option<MSeen>, h: u32, since_ms: Option<u64>) {
    // absolute position of the stamps on the simulated clock: an object handed out for the first
    // time was created, a reused one recycled, inside the get() that hands it out
    if let Some(since) = since_ms {
        let now_ms = engine::now_ms();
        let now = crate::mworld::Instant::now();
        let at = |t: crate::mworld::Instant| -> u64 { now_ms.saturating_sub(now.saturating_duration_since(t).as_millis() as u64) };
        if h == 1 {
            let c = at(m.created);
            if c < since || m.created > now {
                c13v(w, "created_is_creation_time", format!("object #{id} was created inside a get() that started at {since} ms, Metrics::created says {c} ms"));
                return;
            }
        } else if let Some(r) = m.recycled {
            let rm = at(r);
            if rm < since || r > now {
                c13v(w, "recycled_is_last_recycle_time", format!("object #{id} was recycled inside a get() that started at {since} ms, Metrics::recycled says {rm} ms"));
                return;
            }
        }
    }
    let first = w.objs[id as usize].first_created;
    if let Some(f) = first {
        if f != m.created {
            c13v(w, "created_never_changes", format!("object #{id}: creation instant changed between observations"));
            return;
        }
    }
    if m.recycle_count as u32 != h - 1 {
        c13v(
            w,
            "recycle_count_equals_reuses",
            format!("object #{id} handed out for the {h}. time reports recycle_count {}", m.recycle_count),
        );
        return;
    }
    if h == 1 && m.recycled.is_some() {
        c13v(w, "recycled_absent_until_first_reuse", format!("object #{id}: first hand-out already has a last-recycled instant"));
        return;
    }
    if h > 1 {
        match m.recycled {
            None => {
                c13v(w, "recycled_set_on_reuse", format!("object #{id}: hand-out #{h} has no last-recycled instant"));
                return;
            }
            Some(t) => {
                if t < m.created {
                    c13v(w, "recycled_monotone", format!("object #{id}: last-recycled is before creation"));
                    return;
                }
                if let Some(Some(p)) = prev.map(|p| p.recycled) {
                    if t < p {
                        c13v(w, "recycled_monotone", format!("object #{id}: last-recycled moved backwards"));
                        return;
                    }
                }
            }
        }
        w.cnt.probe("metrics_checked_on_reuse");
    }
}

/// Metrics seen by hooks / recycle / retain must be the ones last reported to a caller.
pub fn c13_on_call(w: &mut MWorld, ci: usize) {
    let c = w.calls[ci].clone();
    let (Some(id), Some(m)) = (c.obj, c.metrics) else { return };
    let o = &w.objs[id as usize];
    let expect = match o.last_reported {
        Some(l) => l,
        None => {
            // never handed out yet: fresh metrics
            if m.recycle_count != 0 || m.recycled.is_some() {
                c13v(w, "fresh_object_metrics", format!("{} saw recycle_count {} / recycled {:?} on brand-new object #{id}", c.kind.name(), m.recycle_count, m.recycled.is_some()));
            } else if let Some(f) = o.first_created {
                if f != m.created {
                    c13v(w, "created_never_changes", format!("object #{id}: creation instant changed between observations"));
                }
            } else {
                w.objs[id as usize].first_created = Some(m.created);
            }
            return;
        }
    };
    if m != expect {
        let what = if c.kind == CallKind::Pred { "retain_sees_last_reported" } else { "hooks_see_metrics_before_handout" };
        c13v(
            w,
            what,
            format!(
                "{} saw recycle_count {} (recycled set: {}) for object #{id}; Object::metrics() last reported recycle_count {} (recycled set: {}){}",
                c.kind.name(),
                m.recycle_count,
                m.recycled.is_some(),
                expect.recycle_count,
                expect.recycled.is_some(),
                if m.created != expect.created { "; created differs" } else if m.recycled != expect.recycled { "; recycled instant differs" } else { "" }
            ),
        );
    } else {
        w.cnt.probe("metrics_checked_in_call");
    }
}

// ---- C03: abandoning get() at any suspension point is harmless ---------------------------

fn c03(clause: &str, d: String) -> Option<Violation> {
    Some(crate::engine::violation("C03", clause, d))
}

pub fn c03_on_invoke(w: &mut MWorld, opi: usize) {
    if let Some(sn) = snapshot(w) {
        if let Some(st) = status_of(w) {
            w.ops[opi].snap0 = Some((sn.s, sn.idle, st));
        }
    }
}

fn abandon_mode(w: &MWorld, opi: usize) -> Option<(&'static str, String)> {
    let op = &w.ops[opi];
    let res = op.result.as_ref()?;
    // the call that was in flight (or panicked) when the get was abandoned
    let last = op
        .calls
        .iter()
        .map(|c| &w.calls[*c])
        .filter(|c| c.kind != CallKind::Detach)
        .last();
    let point = match last {
        Some(c) if matches!(c.res, CallRes::Dropped | CallRes::Panic | CallRes::InFlight) => match c.kind {
            CallKind::Create => "create".to_string(),
            CallKind::Recycle => "recycle".to_string(),
            CallKind::PostCreate(_) => "post_create".to_string(),
            CallKind::PreRecycle(_) => "pre_recycle".to_string(),
            CallKind::PostRecycle(_) => "post_recycle".to_string(),
            _ => "other".to_string(),
        },
        _ => "wait".to_string(),
    };
    let mode = match res {
        OpRes::Cancelled => "future_dropped",
        OpRes::EnclosingTimeout => "enclosing_timeout",
        OpRes::Panicked { injected: true, .. } => {
            let in_call = last
                .map(|c| {
                    w.gates
                        .iter()
                        .any(|g| std::ptr::eq(&w.calls[g.call], c) && g.outcome.kind == OKind::PanicCall)
                })
                .unwrap_or(false);
            let sync = last
                .map(|c| match c.kind {
                    CallKind::PostCreate(i) => !w.sc.pool.post_create[i as usize],
                    CallKind::PreRecycle(i) => !w.sc.pool.pre_recycle[i as usize],
                    CallKind::PostRecycle(i) => !w.sc.pool.post_recycle[i as usize],
                    _ => false,
                })
                .unwrap_or(false);
            if in_call || sync {
                "call_panics"
            } else {
                "awaited_future_panics"
            }
        }
        _ => return None,
    };
    Some((mode, point))
}

pub fn c03_on_return(w: &mut MWorld, opi: usize) -> Option<Violation> {
    let (mode, point) = abandon_mode(w, opi)?;
    w.cnt.probe(&format!("abandon[{point}][{mode}]"));
    let op = w.ops[opi].clone();
    // D: objects the call had taken out of the pool or created
    let mut d: Vec<u32> = Vec::new();
    for c in &op.calls {
        if let Some(o) = w.calls[*c].obj {
            if !d.contains(&o) {
                d.push(o);
            }
        }
    }
    for (id, o) in w.objs.iter().enumerate() {
        if o.created_by_op == Some(opi) && !d.contains(&(id as u32)) {
            d.push(id as u32);
        }
    }
    for id in &d {
        let o = &w.objs[*id as usize];
        if o.destroyed.is_none() {
            return c03(
                "object_in_hand_discarded",
                format!("get abandoned at {point} ({mode}): object #{id} it had in hand still exists"),
            );
        }
        if o.detach_steps.len() != 1 {
            return c03(
                "object_in_hand_detached_once",
                format!("get abandoned at {point} ({mode}): object #{id} was detached {} times", o.detach_steps.len()),
            );
        }
    }
    // differential part: only if no operation of another actor overlapped the call
    let now = engine::current_step();
    let overlapped = w.ops.iter().any(|o| {
        o.actor != op.actor
            && o.actor != CONTROLLER
            && o.invoke_step <= now
            && o.return_step.unwrap_or(u64::MAX) >= op.invoke_step
    });
    if overlapped {
        return None;
    }
    let (s0, idle0, st0) = op.snap0.clone()?;
    let sn = snapshot(w)?;
    let st1 = status_of(w)?;
    w.cnt.probe("abandon_differential_checked");
    let lost: Vec<u32> = idle0.iter().copied().filter(|i| d.contains(i)).collect();
    let exp_idle: Vec<u32> = idle0.iter().copied().filter(|i| !d.contains(i)).collect();
    let mk = |clause: &str, what: String| {
        c03(
            clause,
            format!("get abandoned at {point} ({mode}) with nothing else running: {what}"),
        )
    };
    if eff(&sn.s) != eff(&s0) {
        return mk("slot_released", format!("acquirable slots {} before, {} after", eff(&s0), eff(&sn.s)));
    }
    if sn.s.users != s0.users {
        return mk("users_restored", format!("users counter {} before, {} after", s0.users, sn.s.users));
    }
    if sn.s.size != s0.size - lost.len() {
        return mk(
            "size_reduced_by_discarded",
            format!("size {} before, {} after, {} idle object(s) discarded by the call", s0.size, sn.s.size, lost.len()),
        );
    }
    if sn.idle != exp_idle {
        return mk("idle_queue_unchanged", format!("idle queue {:?} before, {:?} after, discarded {:?}", idle0, sn.idle, lost));
    }
    let exp = StatusV {
        max_size: st0.max_size,
        size: st0.size - lost.len(),
        available: st0.available - lost.len().min(st0.available),
        waiting: st0.waiting,
    };
    if st1 != exp {
        return mk("status_restored", format!("status() {:?} before, {:?} after, expected {:?}", st0, st1, exp));
    }
    None
}

// ---- C09: retain / take / detach keep the books straight --------------------------------

fn c09(clause: &str, d: String) -> Option<Violation> {
    Some(crate::engine::violation("C09", clause, d))
}

fn overlapped(w: &MWorld, opi: usize) -> bool {
    let op = &w.ops[opi];
    let now = engine::current_step();
    w.ops.iter().enumerate().any(|(i, o)| {
        i != opi
            && o.actor != op.actor
            && o.actor != CONTROLLER
            && o.invoke_step <= now
            && o.return_step.unwrap_or(u64::MAX) >= op.invoke_step
    })
}

pub fn c09_retain_done(w: &mut MWorld, opi: usize) -> Option<Violation> {
    let op = w.ops[opi].clone();
    let Some(OpRes::Retained { retained, removed }) = op.result.clone() else { return None };
    let preds: Vec<(u32, bool, u64)> = op
        .calls
        .iter()
        .map(|c| &w.calls[*c])
        .filter(|c| c.kind == CallKind::Pred)
        .map(|c| (c.obj.unwrap(), c.res == CallRes::Keep(true), c.step))
        .collect();
    let rejected: Vec<u32> = preds.iter().filter(|p| !p.1).map(|p| p.0).collect();
    let accepted = preds.iter().filter(|p| p.1).count();
    if removed != rejected {
        return c09(
            "retain_removes_exactly_rejected",
            format!("predicate rejected {:?} but retain() returned removed = {:?}", rejected, removed),
        );
    }
    if retained != accepted {
        return c09(
            "retained_count",
            format!("predicate accepted {} object(s) but retain() reports retained = {}", accepted, retained),
        );
    }
    // each idle object present when the lock was taken is offered exactly once
    let mut seen: Vec<u32> = preds.iter().map(|p| p.0).collect();
    seen.sort();
    let mut dedup = seen.clone();
    dedup.dedup();
    if dedup.len() != seen.len() {
        return c09("predicate_once_per_object", format!("predicate called more than once for an object: {:?}", seen));
    }
    let maybe_empty = w.orc.retain_open.remove(&opi).unwrap_or(true);
    if preds.is_empty() && !maybe_empty {
        return c09(
            "predicate_sees_every_idle_object",
            format!(
                "retain() returned without asking the predicate although the idle queue was never empty during the call (idle now: {:?})",
                w.orc.idle_prev
            ),
        );
    }
    if let Some(idle) = w.orc.retain_idle_at_lock.remove(&opi) {
        let mut idle = idle;
        idle.sort();
        if idle != seen {
            return c09(
                "predicate_sees_every_idle_object",
                format!("idle objects when retain() took the lock: {:?}; predicate was called for {:?}", idle, seen),
            );
        }
        w.cnt.probe("retain_idle_set_checked");
    }
    // capacity unchanged (differential, nothing else running)
    if !overlapped(w, opi) {
        if let (Some((s0, _, _)), Some(sn)) = (op.snap0.clone(), snapshot(w)) {
            if eff(&sn.s) != eff(&s0) || sn.s.max_size != s0.max_size {
                return c09(
                    "retain_keeps_capacity",
                    format!("retain() changed permits {} -> {} / max_size {} -> {}", s0.permits, sn.s.permits, s0.max_size, sn.s.max_size),
                );
            }
            if sn.s.size != s0.size - removed.len() {
                return c09(
                    "retain_shrinks_size_by_removed",
                    format!("size {} before, {} after, {} removed", s0.size, sn.s.size, removed.len()),
                );
            }
            w.cnt.probe("retain_differential_checked");
        }
    }
    None
}

pub fn c09_take_done(w: &mut MWorld, opi: usize, id: u32) -> Option<Violation> {
    let op = w.ops[opi].clone();
    match &op.result {
        Some(OpRes::Taken(got)) => {
            if *got != id {
                return c09("take_returns_inner_value", format!("Object::take of #{id} returned #{got}"));
            }
            if matches!(op.op, Op::Take { detach_panics: true, .. }) {
                return c09("detach_called_once_on_take", format!("Object::take of #{id} returned although its Manager::detach was set to panic (detach not called?)"));
            }
        }
        // detach() panicked inside take(): the object is gone all the same, the books must say so
        Some(OpRes::Panicked { injected: true, .. }) if matches!(op.op, Op::Take { detach_panics: true, .. }) => {}
        _ => return None,
    }
    if !overlapped(w, opi) && !w.orc.shrunk {
        if let (Some((s0, idle0, _)), Some(sn)) = (op.snap0.clone(), snapshot(w)) {
            if sn.s.size != s0.size - 1 {
                return c09("take_shrinks_size", format!("size {} before take, {} after", s0.size, sn.s.size));
            }
            if eff(&sn.s) != eff(&s0) + 1 && !s0.closed {
                return c09(
                    "take_frees_slot",
                    format!("permits {} before take, {} after (slot not freed exactly once)", s0.permits, sn.s.permits),
                );
            }
            if sn.idle != idle0 || sn.s.users != s0.users - 1 {
                return c09(
                    "take_books",
                    format!("idle {:?} -> {:?}, users {} -> {}", idle0, sn.idle, s0.users, sn.s.users),
                );
            }
            w.cnt.probe("take_differential_checked");
        }
    }
    None
}

/// Detach ledger, evaluated while the pool is still alive.
pub fn c09_final(w: &MWorld) -> Option<Violation> {
    for (id, o) in w.objs.iter().enumerate() {
        let n = o.detach_seqs.len();
        if o.destroyed.is_some() && !o.pool_gone {
            // the pool let go of it while it was alive (taken, removed by retain, rejected,
            // surplus on return, released by shrink or close)
            let how = if o.taken {
                "taken"
            } else if o.retain_removed {
                "removed by retain"
            } else if o.dead {
                "rejected while recycling / after creation"
            } else {
                "released by the pool (surplus on return, shrink or close)"
            };
            if n != 1 {
                return c09(
                    "detach_exactly_once",
                    format!("object #{id} was {how} but Manager::detach was called {n} times for it"),
                );
            }
            if o.detach_seqs[0] > o.destroyed_seq {
                return c09("detach_before_destruction", format!("object #{id} ({how}) was detached after its destructor ran"));
            }
        } else if o.destroyed.is_none() && n != 0 {
            return c09(
                "no_detach_for_pooled_object",
                format!("object #{id} is still in the pool (or in a caller's hands) but was detached {n} time(s)"),
            );
        }
    }
    None
}

// ---- C07: resize() makes the new limit effective in both directions -----------------------

fn c07(clause: &str, d: String) -> Option<Violation> {
    Some(crate::engine::violation("C07", clause, d))
}

/// In-progress gets that are still waiting for a slot, split into those that are parked
/// and un-woken (subject to a resize/close that returns now) and the rest (exempt).
fn waiting_gets_subject(w: &MWorld, by_actor: usize) -> (Vec<usize>, Vec<usize>) {
    let wakes = engine::wakes_since(0);
    let mut subject = Vec::new();
    let mut exempt = Vec::new();
    for opi in gets_in_progress(w) {
        let op = &w.ops[opi];
        if op.actor == CONTROLLER {
            continue;
        }
        if !op.calls.is_empty() || op.permit_step.is_some() {
            continue; // past the wait phase: not a waiter at all
        }
        let parked = w.orc.parked_pending.contains(&op.actor);
        let last_run = w.orc.last_run_step.get(&op.actor).copied().unwrap_or(0);
        let woken = wakes
            .iter()
            .any(|(step, a, by)| *a == op.actor && *step >= last_run && *by != by_actor);
        if parked && !woken {
            subject.push(opi);
        } else {
            exempt.push(opi);
        }
    }
    (subject, exempt)
}

pub fn c07_resize_invoke(w: &mut MWorld, opi: usize) {
    w.orc.resizes_in_progress += 1;
    c03_on_invoke(w, opi);
}

pub fn c07_resize_done(w: &mut MWorld, opi: usize, n: usize, closed: bool) -> Option<Violation> {
    w.orc.resizes_in_progress -= 1;
    let s = engine::current_step();
    w.orc.last_resize_done = Some(s);
    if closed {
        return None;
    }
    // gets already granted a slot (woken / mid-poll) are legal residue of the old limit
    let actor = w.ops[opi].actor;
    let (_subject, exempt) = waiting_gets_subject(w, usize::MAX - 1);
    let _ = actor;
    for g in exempt {
        w.ops[g].exempt_resize = Some(s);
    }
    if w.orc.resizes_in_progress > 0 || overlapped(w, opi) {
        return None;
    }
    let sn = snapshot(w)?;
    w.cnt.probe("resize_differential_checked");
    if sn.s.max_size != n {
        return c07("max_size_reported", format!("after resize({n}) returned the pool's max_size is {}", sn.s.max_size));
    }
    if let Some(st) = status_of(w) {
        if st.max_size != n {
            return c07("max_size_reported", format!("after resize({n}) returned status().max_size is {}", st.max_size));
        }
    }
    if sn.idle.len() > n {
        return c07(
            "surplus_idle_released",
            format!("after resize({n}) returned {} idle objects remain: {:?}", sn.idle.len(), sn.idle),
        );
    }
    // books: with nothing else running, available slots = limit - objects that exist
    let live = w.n_live();
    let expect_permits = n as isize - (w.n_out() + classify_gets(w).past.len()) as isize;
    if eff(&sn.s) != expect_permits {
        return c07(
            "capacity_after_resize",
            format!(
                "after resize({n}) returned with nothing else running: {} slot(s) can still be acquired, but the limit leaves room for {} ({} objects exist, {} checked out)",
                eff(&sn.s), expect_permits, live, w.n_out()
            ),
        );
    }
    None
}

/// Admission: a get that acquired its slot after the last resize returned must not
/// create an object beyond the limit in force.
pub fn c07_on_create(w: &mut MWorld, ci: usize) {
    absorb_site_log(w);
    let c = w.calls[ci].clone();
    if c.actor == CONTROLLER || w.draining {
        return;
    }
    let Some(opi) = c.op else { return };
    let Some(s) = w.orc.last_resize_done else { return };
    if w.orc.resizes_in_progress > 0 || w.orc.close_invoked || w.orc.max_ambiguous.is_some() {
        return;
    }
    let op = &w.ops[opi];
    let admitted_after = op.permit_step.map(|p| p > s).unwrap_or(false) && op.exempt_resize != Some(s);
    if !admitted_after {
        w.cnt.probe("create_by_get_admitted_before_resize");
        return;
    }
    let n = w.cur_max_size();
    let total = w.n_live() + w.n_inflight_creates() + 1;
    // objects whose return is in progress on another thread may already have been released
    // by the pool (destructor pending): they count only if that return ends up keeping them
    let in_transit: Vec<u32> = w
        .ops
        .iter()
        .filter(|o| matches!(o.op, Op::Return { .. }) && o.return_step.is_none())
        .filter_map(|o| o.target)
        .filter(|id| {
            let o = &w.objs[*id as usize];
            o.destroyed.is_none() && !o.taken && !o.retain_removed
        })
        .collect();
    if total.saturating_sub(in_transit.len()) > n {
        let d = format!(
            "a get() admitted after resize({n}) returned creates an object although {} already exist or are being created",
            total.saturating_sub(1 + in_transit.len())
        );
        w.violate("C07", "admitted_over_limit", d);
    } else if total > n {
        w.cnt.probe("admission_judged_after_pending_returns");
        w.orc.deferred_admissions.push((n, total.saturating_sub(in_transit.len()), in_transit));
    } else {
        w.cnt.probe("create_after_resize_within_limit");
    }
}

/// A get that acquired its slot after the last resize returned must not leave more objects
/// checked out than the limit in force (whatever it hands out: a new or an idle object).
pub fn c07_on_handout(w: &mut MWorld, opi: usize) -> Option<Violation> {
    absorb_site_log(w);
    let s = w.orc.last_resize_done?;
    if w.orc.resizes_in_progress > 0 || w.orc.close_invoked || w.orc.max_ambiguous.is_some() {
        return None;
    }
    let op = &w.ops[opi];
    if op.actor == CONTROLLER || !matches!(op.result, Some(OpRes::GetOk(_))) {
        return None;
    }
    let admitted_after = op.permit_step.map(|p| p > s).unwrap_or(false) && op.exempt_resize != Some(s);
    if !admitted_after {
        return None;
    }
    let n = w.cur_max_size();
    let out = w.n_out();
    if out > n {
        return c07(
            "checked_out_over_limit",
            format!("a get() admitted after resize({n}) returned completed although {} objects were still checked out", out - 1),
        );
    }
    w.cnt.probe("handout_after_resize_within_limit");
    None
}

/// A return that was in flight when a get created an object has finished.
fn c07_settle_deferred(w: &mut MWorld, id: u32) -> Option<Violation> {
    let kept = w.objs[id as usize].destroyed.is_none();
    let mut bad = None;
    for (n, count, pending) in w.orc.deferred_admissions.iter_mut() {
        if let Some(pos) = pending.iter().position(|p| *p == id) {
            let _ = pending.remove(pos);
            if kept {
                *count += 1;
                if *count > *n {
                    bad = Some((*n, *count));
                }
            }
        }
    }
    w.orc.deferred_admissions.retain(|d| !d.2.is_empty());
    bad.and_then(|(n, count)| {
        c07(
            "admitted_over_limit",
            format!("a get() admitted after resize({n}) returned created an object while {} others existed (an object returned concurrently was kept)", count - 1),
        )
    })
}

pub fn c07_return_done(w: &mut MWorld, opi: usize, id: u32) -> Option<Violation> {
    if let Some(v) = c07_settle_deferred(w, id) {
        return Some(v);
    }
    let op = w.ops[opi].clone();
    let s = w.orc.last_resize_done?;
    if op.invoke_step <= s || w.orc.resizes_in_progress > 0 || w.orc.close_invoked || overlapped(w, opi) || w.orc.max_ambiguous.is_some() {
        return None;
    }
    let kept = w.objs[id as usize].destroyed.is_none();
    let n = w.cur_max_size();
    let live = w.n_live();
    if kept && live > n {
        return c07(
            "surplus_discarded_on_return",
            format!("object #{id} came back while {live} objects exist (limit {n}) and was kept"),
        );
    }
    if !kept {
        w.cnt.probe("surplus_discarded_on_return");
    }
    None
}

// ---- C06: close() is prompt, final and leaves nothing behind ---------------------------------

fn c06(clause: &str, d: String) -> Option<Violation> {
    Some(crate::engine::violation("C06", clause, d))
}

pub fn c06_close_invoke(w: &mut MWorld, opi: usize) {
    if w.orc.closer.is_none() {
        w.orc.closer = Some(w.ops[opi].actor);
        if w.orc.idle_prev_valid {
            w.orc.idle_at_close = w.orc.idle_prev.clone();
        }
    }
}

pub fn c06_close_done(w: &mut MWorld, opi: usize) -> Option<Violation> {
    let closer = w.ops[opi].actor;
    let (subject, _exempt) = waiting_gets_subject(w, closer);
    for g in subject {
        if !w.orc.must_close.contains(&g) {
            w.orc.must_close.push(g);
        }
    }
    // objects that were idle when close() was called are released within the call
    if !overlapped(w, opi) {
        for id in w.orc.idle_at_close.clone() {
            let o = &w.objs[id as usize];
            if o.destroyed.is_none() {
                return c06("idle_released_by_close", format!("object #{id} was idle when close() was called and still exists after it returned"));
            }
        }
        w.cnt.probe("close_differential_checked");
    }
    None
}

pub fn c06_get_return(w: &mut MWorld, opi: usize) -> Option<Violation> {
    let s = w.orc.closed_step?;
    let op = w.ops[opi].clone();
    let res = op.result.clone()?;
    if op.invoke_step > s {
        // invoked after close() returned
        // C10 asks for NoRuntimeSpecified from a get() with a non-zero per-call timeout on a pool
        // without runtime, C06 for Closed: where both apply either documented answer is accepted
        // (only the wait timeout is "used" by a call that never gets a slot)
        let no_rt = !w.sc.pool.runtime && op.eff.0.map(|t| t > 0).unwrap_or(false);
        if res != OpRes::GetErr(ErrV::Closed) && !(no_rt && res == OpRes::GetErr(ErrV::NoRuntime)) {
            return c06("get_after_close_is_closed", format!("get() invoked after close() returned gave {:?}", res));
        }
        w.cnt.probe("get_after_close_closed");
    } else if w.orc.must_close.contains(&opi) {
        // (a wait deadline that has passed as well does not change the answer: the call was
        // still waiting when close() returned, and the closed pool is looked at first)
        let ok = matches!(res, OpRes::GetErr(ErrV::Closed) | OpRes::Cancelled | OpRes::EnclosingTimeout);
        if !ok || !op.calls.is_empty() {
            return c06(
                "waiting_get_is_closed",
                format!("a get() that was still waiting for a slot when close() returned gave {:?} (manager calls made: {})", res, op.calls.len()),
            );
        }
        if res == OpRes::GetErr(ErrV::Closed) {
            w.cnt.probe("waiting_get_closed");
        }
    }
    None
}

pub fn c06_return_done(w: &mut MWorld, opi: usize, id: u32) -> Option<Violation> {
    let s = w.orc.closed_step?;
    let op = &w.ops[opi];
    if op.invoke_step > s {
        let o = &w.objs[id as usize];
        if o.destroyed.is_none() {
            return c06("returned_after_close_discarded", format!("object #{id} was returned after close() had returned and still exists"));
        }
        if o.detach_seqs.len() != 1 {
            return c06("returned_after_close_detached", format!("object #{id} returned after close() was detached {} times", o.detach_seqs.len()));
        }
        w.cnt.probe("return_after_close_discarded");
    }
    None
}

/// Sampled after every step once close() has returned.
pub fn c06_step(w: &mut MWorld, sn: &Snap) -> Option<Violation> {
    w.orc.closed_step?;
    if !sn.s.closed {
        return c06("is_closed_stays_true", "is_closed() is false after close() returned".into());
    }
    if let Some(p) = w.pool.as_ref() {
        if !p.is_closed() {
            return c06("is_closed_stays_true", "is_closed() is false after close() returned".into());
        }
    }
    if sn.s.max_size != 0 {
        return c06("closed_max_size_zero", format!("max_size is {} after close() returned (resize after close must have no effect)", sn.s.max_size));
    }
    if let Some(st) = status_of(w) {
        if st.max_size != 0 {
            return c06("closed_max_size_zero", format!("status().max_size is {} after close() returned", st.max_size));
        }
    }
    None
}

pub fn c06_rest(w: &mut MWorld, when: &str) -> Option<Violation> {
    w.orc.closed_step?;
    let sn = snapshot(w)?;
    if !sn.idle.is_empty() {
        return c06(
            "closed_pool_keeps_nothing",
            format!("at {when} point after close() returned the pool still holds idle objects {:?}", sn.idle),
        );
    }
    w.cnt.probe("closed_pool_empty_at_rest");
    None
}

/// Lower bound of the slots a non-blocking get could acquire right now, from the ledger only:
/// every checked-out object, every other get in progress and every return / take in transit is
/// assumed to hold a permit. 0 while the limit is being changed.
fn free_slots_lower_bound(w: &MWorld, except_op: usize) -> usize {
    if w.orc.resizes_in_progress > 0 || w.orc.close_invoked || w.orc.max_ambiguous.is_some() || w.orc.closed_step.is_some() {
        return 0;
    }
    let busy = w
        .ops
        .iter()
        .enumerate()
        .filter(|(i, o)| *i != except_op && o.return_step.is_none() && matches!(o.op, Op::Get { .. } | Op::Return { .. } | Op::Take { .. }))
        .count()
        + if w.ctl_op.is_some() { 1 } else { 0 };
    w.cur_max_size().saturating_sub(w.n_out() + busy)
}

/// Updates the interval bound of every non-blocking get that is still looking for a slot.
fn c10_track_zero_wait(w: &mut MWorld) {
    for opi in gets_in_progress(w) {
        if w.ops[opi].eff.0 == Some(0) && w.ops[opi].calls.is_empty() {
            let lb = free_slots_lower_bound(w, opi);
            let cur = w.ops[opi].free_lb_min;
            w.ops[opi].free_lb_min = Some(cur.map(|c| c.min(lb)).unwrap_or(lb));
        }
    }
}

// ---- C10: timeouts, non-blocking mode, missing runtime ---------------------------------------

fn c10(clause: &str, d: String) -> Option<Violation> {
    Some(crate::engine::violation("C10", clause, d))
}

fn nz(t: Option<u64>) -> Option<u64> {
    t.filter(|v| *v > 0)
}

pub fn c10_get_return(w: &mut MWorld, opi: usize) -> Option<Violation> {
    let op = w.ops[opi].clone();
    let res = op.result.clone()?;
    let rt = w.sc.pool.runtime;
    let (wait, create, recycle) = op.eff;
    let now = op.return_ms.unwrap_or(0);
    let abandoned = matches!(res, OpRes::Cancelled | OpRes::EnclosingTimeout | OpRes::Panicked { .. });
    let calls: Vec<Call> = op.calls.iter().map(|c| w.calls[*c].clone()).collect();
    let pend_wait = op.pend_first_call.unwrap_or(engine::pending_count(op.actor)) - op.pend_base;

    // -- wait phase --------------------------------------------------------------------------
    if let Some(wms) = nz(wait) {
        if !rt {
            // (d) per-call wait timeout without runtime
            if res != OpRes::GetErr(ErrV::NoRuntime) && !op.closed_at_invoke {
                // a closed pool may legitimately answer Closed; anything else is wrong
                if res != OpRes::GetErr(ErrV::Closed) {
                    return c10("no_runtime_wait", format!("get with a wait timeout but no runtime returned {:?} instead of NoRuntimeSpecified", res));
                }
            }
            if pend_wait > 0 {
                return c10("no_runtime_no_hang", "get with a wait timeout but no runtime was left pending".into());
            }
            w.cnt.probe("no_runtime_wait_checked");
        } else if res == OpRes::GetErr(ErrV::TimeoutWait) {
            let start = op.wait_start_ms.unwrap_or(now);
            if now < start.saturating_add(wms) {
                return c10(
                    "wait_timeout_not_early",
                    format!("Timeout(Wait) {} ms after the call started waiting, wait timeout is {} ms", now - start, wms),
                );
            }
            if !calls.is_empty() {
                return c10("wait_timeout_only_while_waiting", "Timeout(Wait) although the call had already obtained a slot".into());
            }
            // A slot that became free for this caller before its deadline must be obtained, however
            // late the caller is polled. Judged where nobody else could have taken the slot: no
            // other get() overlapped the call, no resize / close anywhere in the history.
            let deadline = start.saturating_add(wms);
            let alone = !w.ops.iter().enumerate().any(|(i, o)| {
                i != opi
                    && ((matches!(o.op, Op::Get { .. }) && o.actor != op.actor && o.return_step.map(|r| r >= op.invoke_step).unwrap_or(true) && o.invoke_step <= engine::current_step())
                        || matches!(o.op, Op::Resize { .. } | Op::Close))
            });
            if alone && w.sc.pool.max_size > 0 {
                let freed = w.ops.iter().find(|o| {
                    matches!(o.op, Op::Return { .. } | Op::Take { detach_panics: false, .. })
                        && matches!(o.result, Some(OpRes::Unit) | Some(OpRes::Taken(_)))
                        && o.invoke_step >= op.invoke_step
                        && o.return_ms.map(|t| t < deadline).unwrap_or(false)
                });
                if let Some(r) = freed {
                    return c10(
                        "wait_obtains_freed_slot",
                        format!(
                            "Timeout(Wait) (deadline at {} ms) although {:?} freed a slot at {} ms and nobody else asked for one",
                            deadline,
                            r.op,
                            r.return_ms.unwrap_or(0)
                        ),
                    );
                }
                w.cnt.probe("wait_timeout_without_free_slot");
            }
            w.cnt.probe("wait_timeout_fired");
        }
    }
    if wait == Some(0) {
        // (b) zero wait: never pending while waiting for a slot
        if pend_wait > 0 {
            return c10("zero_wait_never_pending", format!("non-blocking get returned Pending {pend_wait} time(s) before obtaining a slot"));
        }
        if !overlapped(w, opi) && calls.is_empty() && !abandoned {
            // differential: nothing else running => the verdict is determined by free capacity
            if let Some((s0, _, _)) = op.snap0.clone() {
                let free = w.cur_max_size() as isize - (w.n_out() as isize);
                if w.orc.resizes_in_progress > 0 || w.orc.max_ambiguous.is_some() {
                    return None;
                }
                let exp_timeout = free <= 0;
                match (&res, s0.closed, exp_timeout) {
                    (OpRes::GetErr(ErrV::Closed), true, _) => {}
                    (_, true, _) => return c10("zero_wait_closed", format!("non-blocking get on a closed pool returned {:?}", res)),
                    (OpRes::GetErr(ErrV::TimeoutWait), false, true) => w.cnt.probe("zero_wait_timeout_when_full"),
                    (OpRes::GetErr(ErrV::TimeoutWait), false, false) => {
                        return c10("zero_wait_timeout_iff_full", format!("non-blocking get reported Timeout(Wait) although {free} slot(s) were free and nothing else was running"));
                    }
                    _ => {}
                }
            }
        }
        if res == OpRes::GetErr(ErrV::TimeoutWait) && !calls.is_empty() {
            return c10("wait_timeout_only_while_waiting", "Timeout(Wait) although the call had already obtained a slot".into());
        }
        // with other operations running: Timeout(Wait) is only legal if at some step of the
        // call's interval no slot may have been free (interval bound from the ledger)
        if res == OpRes::GetErr(ErrV::TimeoutWait) && calls.is_empty() {
            let lb_now = free_slots_lower_bound(w, opi);
            let lb = op.free_lb_min.map(|m| m.min(lb_now));
            if let Some(lb) = lb {
                if lb > 0 {
                    return c10(
                        "zero_wait_timeout_iff_full",
                        format!("non-blocking get reported Timeout(Wait) although at least {lb} slot(s) were free during the whole call (max_size {}, {} checked out)", w.cur_max_size(), w.n_out()),
                    );
                }
                w.cnt.probe("zero_wait_timeout_bound_checked");
            }
        }
    }
    if wait.is_none() && res == OpRes::GetErr(ErrV::TimeoutWait) {
        return c10("no_wait_timeout_configured", "Timeout(Wait) without any wait timeout".into());
    }

    // -- create phase -------------------------------------------------------------------------
    let create_call = calls.iter().find(|c| c.kind == CallKind::Create);
    match (nz(create), create_call) {
        (Some(cms), Some(c)) if rt => {
            let end = c.end_ms.unwrap_or(now);
            if res == OpRes::GetErr(ErrV::TimeoutCreate) {
                if c.res != CallRes::Dropped {
                    return c10("create_timeout_drops_future", format!("Timeout(Create) but the create call ended as {:?}", c.res));
                }
                if end < c.ms + cms {
                    return c10("create_timeout_not_early", format!("Timeout(Create) after {} ms, create timeout is {} ms", end - c.ms, cms));
                }
                if let Some(Outcome { kind, mode: OMode::Delay(d) }) = c.outcome {
                    if d < cms && kind != OKind::Never {
                        return c10("create_timeout_only_when_late", format!("create finished after {d} ms, timeout {cms} ms, yet Timeout(Create) was reported"));
                    }
                }
                w.cnt.probe("create_timeout_fired");
            } else if !abandoned {
                // The call resolved otherwise. That is legal even if create took longer than the
                // timeout: the deadline is only examined when the task is polled, and a poll that
                // finds create finished lets create win. A timeout that never fires is caught
                // at quiescence (phase_timeout_fires).
                if let Some(Outcome { mode: OMode::Delay(d), .. }) = c.outcome {
                    if d >= cms {
                        w.cnt.probe("create_finished_at_or_after_deadline_before_poll");
                    }
                }
            }
        }
        (Some(_), Some(c)) if !rt => {
            if res != OpRes::GetErr(ErrV::NoRuntime) && !abandoned {
                return c10("no_runtime_create", format!("create phase reached with a create timeout but no runtime: get returned {:?}", res));
            }
            if c.polled {
                return c10("no_runtime_create", "create future was polled although the timeout cannot be enforced".into());
            }
            w.cnt.probe("no_runtime_create_checked");
        }
        (None, _) | (Some(_), None) => {
            if res == OpRes::GetErr(ErrV::TimeoutCreate) && (create.is_none() || create_call.is_none()) {
                return c10("create_timeout_variant", "Timeout(Create) without a create timeout or without a create call".into());
            }
        }
        _ => {}
    }

    // -- recycle phase ------------------------------------------------------------------------
    if res == OpRes::GetErr(ErrV::TimeoutRecycle) {
        return c10("recycle_timeout_is_a_rejection", "get returned Timeout(Recycle); a recycle timeout must count as a rejected object".into());
    }
    for (k, c) in calls.iter().enumerate() {
        if c.kind != CallKind::Recycle {
            continue;
        }
        let last = calls[k + 1..].iter().all(|c| c.kind == CallKind::Detach);
        match nz(recycle) {
            Some(rms) if rt => {
                if c.res == CallRes::Dropped && !(last && abandoned) {
                    // the timeout fired: not early, object rejected, get moved on
                    let end = c.end_ms.unwrap_or(now);
                    if end < c.ms + rms {
                        return c10("recycle_timeout_not_early", format!("recycle was abandoned after {} ms, recycle timeout is {} ms", end - c.ms, rms));
                    }
                    if let Some(x) = c.obj {
                        let o = &w.objs[x as usize];
                        if o.destroyed.is_none() || o.detach_seqs.len() != 1 {
                            return c10("recycle_timeout_rejects_object", format!("object #{x} timed out in recycle: destroyed={}, detached {} times", o.destroyed.is_some(), o.detach_seqs.len()));
                        }
                        if res == OpRes::GetOk(x) {
                            return c10("recycle_timeout_rejects_object", format!("object #{x} timed out in recycle and was handed out"));
                        }
                    }
                    w.cnt.probe("recycle_timeout_fired");
                } else if let (CallRes::Ok | CallRes::Err(..), Some(Outcome { mode: OMode::Delay(d), .. })) = (c.res, c.outcome) {
                    if d >= rms {
                        w.cnt.probe("recycle_finished_at_or_after_deadline_before_poll");
                    }
                }
            }
            Some(_) if !rt => {
                // (d) the error must be reported by this very call, and objects must not be
                // discarded silently
                if res != OpRes::GetErr(ErrV::NoRuntime) && !abandoned {
                    let destroyed = c.obj.map(|x| w.objs[x as usize].destroyed.is_some()).unwrap_or(false);
                    return c10(
                        "no_runtime_recycle",
                        format!(
                            "recycle phase reached with a recycle timeout but no runtime: get returned {:?}{}",
                            res,
                            if destroyed { " and the idle object was destroyed silently" } else { "" }
                        ),
                    );
                }
                w.cnt.probe("no_runtime_recycle_checked");
            }
            _ => {}
        }
    }
    if res == OpRes::GetErr(ErrV::NoRuntime) {
        // (a zero create / recycle timeout is still a timeout that needs a runtime; only a zero
        // wait timeout is special: it selects the non-blocking mode)
        let needs = !rt && (nz(wait).is_some() || (create.is_some() && create_call.is_some()) || (recycle.is_some() && calls.iter().any(|c| c.kind == CallKind::Recycle)));
        if !needs {
            return c10("no_runtime_only_when_needed", "NoRuntimeSpecified although no non-zero timeout of a reached phase needs a runtime".into());
        }
    }
    None
}

/// At quiescence nobody may still be waiting past its deadline.
pub fn c10_quiescent(w: &mut MWorld, now_ms: u64) -> Option<Violation> {
    if !w.sc.pool.runtime {
        return None;
    }
    for opi in gets_in_progress(w) {
        let op = &w.ops[opi];
        if let Op::Get { enclosing: Some(_), .. } = op.op {
            continue;
        }
        if let Some(wms) = nz(op.eff.0) {
            if let Some(start) = op.wait_start_ms {
                if (op.calls.is_empty() || op.sem_waiting) && now_ms > start.saturating_add(wms) {
                    return c10(
                        "wait_timeout_fires",
                        format!("no task is runnable at t={now_ms} ms but a get() waiting since {start} ms with a {wms} ms wait timeout is still waiting"),
                    );
                }
            }
        }
        for c in &op.calls {
            let c = &w.calls[*c];
            if c.res != CallRes::InFlight {
                continue;
            }
            // a zero timeout gives the call exactly one poll
            let zero = match c.kind {
                CallKind::Create => op.eff.1 == Some(0),
                CallKind::Recycle => op.eff.2 == Some(0),
                _ => false,
            };
            if zero && c.polled && w.sc.pool.runtime {
                return c10(
                    "phase_timeout_fires",
                    format!("no task is runnable but {} with a zero timeout is still in flight after its first poll", c.kind.name()),
                );
            }
            let t = match c.kind {
                CallKind::Create => nz(op.eff.1),
                CallKind::Recycle => nz(op.eff.2),
                _ => None,
            };
            if let Some(t) = t {
                if now_ms > c.ms.saturating_add(t) {
                    return c10(
                        "phase_timeout_fires",
                        format!("no task is runnable at t={now_ms} ms but {} started at {} ms with a {} ms timeout is still in flight", c.kind.name(), c.ms, t),
                    );
                }
            }
        }
    }
    None
}
