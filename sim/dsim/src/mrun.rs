//! Runs one managed-pool scenario: main phase under the controller, then the
//! deterministic epilogue (drain, return everything, probes, final checks).

use simcore::common::Outcome;

use crate::engine::{
    self, begin_run, end_run, Decision, Resume, RunEnd, RunStats, Sim, SimInfo, Violation, World,
};
use crate::moracle;
use crate::mtypes::*;
use crate::mworld::*;

pub struct MHandle;

impl World for MHandle {
    fn actors(&self) -> usize {
        with_w(|w| w.sc.actors.len())
    }
    fn actor_body(&mut self, i: usize) -> Box<dyn FnOnce()> {
        actor_body(i)
    }
    fn openable_gates(&mut self, out: &mut Vec<u32>) {
        openable_gates(out)
    }
    fn open_gate(&mut self, g: u32) {
        open_gate(g)
    }
    fn cancellable(&mut self, actor: usize) -> bool {
        with_w(|w| match w.cur_op.get(actor).copied().flatten() {
            Some(opi) => match w.ops[opi].op {
                Op::Get { cancellable, .. } => cancellable || w.draining,
                _ => false,
            },
            None => false,
        })
    }
    fn after_step(&mut self, sim: &SimInfo) -> Option<Violation> {
        with_w(|w| moracle::after_step(w, sim))
    }
    fn quiescent(&mut self, sim: &SimInfo) -> Option<Violation> {
        with_w(|w| moracle::quiescent(w, sim))
    }
    fn after_advance(&mut self, _now_ms: u64) {
        wake_due_gates();
    }
    fn tick_at_boundary(&self) -> u64 {
        // C13 judges instants: let a little time pass between operations so that a changed
        // creation / recycle instant cannot hide behind a clock that stands still
        with_w(|w| if w.sc.profile == "C13" { 1 } else { 0 })
    }
}

/// Stack size of actor coroutines for this world.
const STACK: usize = 256 * 1024;

pub fn run_scenario(sc: &MScenario, replay: Option<Vec<Decision>>, trace: bool) -> Outcome {
    begin_run(&sc.knobs, sc.actors.len(), trace, STACK);
    let mut sim = Sim::new(sc.sched_seed, sc.knobs.clone(), replay);
    let handle = sim.clock.handle();
    let guard = handle.enter();
    install_world(MWorld::new(sc.clone()));
    let mut violation: Option<Violation> = None;
    let mut diverged = None;
    let mut step_cap_hit = false;
    let mut main_len = 0usize;

    match build_pool(&sc.pool) {
        Built::Pool(p) => {
            with_w(|w| w.pool = Some(p));
            if (sc.pool.wait.is_some() || sc.pool.create.is_some() || sc.pool.recycle.is_some()) && !sc.pool.runtime {
                violation = Some(engine::violation(
                    "C10",
                    "build_error_missing",
                    "build() succeeded although pool-level timeouts are configured without a runtime".into(),
                ));
            }
            let mut h = MHandle;
            for i in 0..sc.actors.len() {
                let body = h.actor_body(i);
                let _ = sim.add_actor(body);
            }
            let end = sim.run(&mut h);
            main_len = sim.decisions.len();
            match end {
                RunEnd::Finished => {}
                RunEnd::Violation(v) => violation = Some(v),
                RunEnd::StepCap => step_cap_hit = true,
                RunEnd::Diverged(e) => diverged = Some(e),
        RunEnd::Deadlock(d) => {
            violation = Some(engine::violation(&sc.profile, "deadlock", format!("no thread can move: {d} wait for a lock that is never released")))
        }
            }
            if violation.is_none() && diverged.is_none() {
                if step_cap_hit && sc.profile == "C02" {
                    violation = Some(crate::engine::violation(
                        "C02",
                        "no_progress",
                        format!("step cap of {} reached with unfinished operations", sc.knobs.step_cap),
                    ));
                } else {
                    violation = epilogue(sc, &mut sim, &mut h);
                }
            } else {
                // wind the actors down so that every coroutine finishes cleanly
                let _ = drain(&mut sim, &mut h, false);
            }
        }
        Built::NoRuntime => {
            with_w(|w| w.cnt.probe("build_reports_no_runtime"));
            let expected = (sc.pool.wait.is_some() || sc.pool.create.is_some() || sc.pool.recycle.is_some())
                && !sc.pool.runtime;
            if !expected {
                violation = Some(crate::engine::violation(
                    "C10",
                    "build_error_unexpected",
                    "build() reported NoRuntimeSpecified although no pool-level timeout is configured or a runtime is set".into(),
                ));
            }
        }
    }
    // tear down: take the world out, then drop it outside the RefCell borrow
    let stats = sim.stats.clone();
    let mut decisions = sim.decisions.clone();
    decisions.truncate(main_len);
    let virtual_ms = sim.clock.advanced_total_ms;
    // release everything the world still owns while it is installed (drops call back into it)
    let leftovers: Vec<SObject> = with_w(|w| {
        w.draining = true;
        let mut v = Vec::new();
        for h in w.held.iter_mut() {
            v.append(h);
        }
        v
    });
    if lock_stuck() {
        // nothing that touches the pool can be run any more: leak what is left
        std::mem::forget(leftovers);
        std::mem::forget(with_w(|w| w.pool.take()));
        if violation.is_none() && diverged.is_none() {
            violation = Some(engine::violation(&sc.profile, "deadlock", "the pool's lock is held forever".into()));
        }
    } else {
        // one by one: a panicking drop must not meet a second one while unwinding (that would abort)
        for obj in leftovers {
            if std::panic::catch_unwind(std::panic::AssertUnwindSafe(move || drop(obj))).is_err() {
                with_w(|w| w.cnt.probe("teardown_drop_panicked"));
            }
        }
        let pool = with_w(|w| w.pool.take());
        let _ = std::panic::catch_unwind(std::panic::AssertUnwindSafe(move || drop(pool)));
    }
    let w = remove_world().expect("world");
    let nt = nontrivial(&w, &stats);
    let mut faults = w.cnt.faults.clone();
    let mut add = |k: &str, v: u64| {
        if v > 0 {
            *faults.entry(k.to_string()).or_insert(0) += v;
        }
    };
    add("controller_cancelled_future", stats.cancels);
    add("spurious_poll", stats.spurious);
    add("time_jump_with_runnable_threads", stats.jump_with_runnable);
    add("clock_advance", stats.advances);
    add("lock_contention_yield", stats.lock_busy);
    let mut probes = w.cnt.probes.clone();
    if w.orc.rest_points > 0 {
        *probes.entry("rest_points".into()).or_insert(0) += w.orc.rest_points;
    }
    if w.orc.quiescent_points > 0 {
        *probes.entry("quiescent_points".into()).or_insert(0) += w.orc.quiescent_points;
    }
    let states: Vec<u64> = w
        .orc
        .abstract_states
        .keys()
        .map(|k| {
            simcore::rng::mix(&[
                k.0 as u64, k.1 as u64, k.2 as u64, k.3 as u64, k.4 as u64, k.5 as u64, k.6 as u64,
            ])
        })
        .collect();
    let ops = w.ops.iter().filter(|o| o.actor != engine::CONTROLLER).count() as u64;
    drop(w);
    sim.abandon_unfinished();
    drop(guard);
    drop(sim);
    let (log_hash, trace) = end_run();
    Outcome {
        violation,
        diverged,
        decisions,
        log_hash,
        trace,
        steps: stats.steps,
        switches: stats.switches,
        virtual_ms,
        ops,
        nontrivial: nt,
        ileave: stats.interleaving_hash,
        faults,
        probes,
        states,
        step_cap_hit,
        switch_pairs: stats.switch_pairs.iter().copied().collect(),
    }
}

/// A run is non-trivial if two operations overlapped with a context switch between
/// them, or a fault landed inside an operation.
fn nontrivial(w: &MWorld, stats: &RunStats) -> bool {
    let mut overlap = false;
    for (i, a) in w.ops.iter().enumerate() {
        if a.actor == engine::CONTROLLER {
            continue;
        }
        for b in w.ops[i + 1..].iter() {
            if b.actor == engine::CONTROLLER || b.actor == a.actor {
                continue;
            }
            let a_end = a.return_step.unwrap_or(u64::MAX);
            let b_end = b.return_step.unwrap_or(u64::MAX);
            if a.invoke_step < b_end && b.invoke_step < a_end && a.invoke_step != a_end && b.invoke_step != b_end {
                overlap = true;
            }
        }
    }
    let faults: u64 = w.cnt.faults.values().sum();
    (overlap && stats.switches > 0) || faults > 0
}

fn drain(sim: &mut Sim, h: &mut MHandle, stop_on_violation: bool) -> Result<(), Option<Violation>> {
    with_w(|w| w.draining = true);
    for _round in 0..64 {
        match sim.settle(h, 20_000) {
            Ok(()) => {}
            Err(Some(v)) if stop_on_violation => return Err(Some(v)),
            Err(Some(_)) => continue,
            Err(None) => return Err(None),
        }
        let pending = sim.pending_actors();
        if pending.is_empty() {
            return Ok(());
        }
        for a in pending {
            h.note_cancel(a);
            let _ = sim.resume(a, Resume::Cancel);
            if let Some(v) = with_w(|w| w.pending_violation.take()) {
                if stop_on_violation {
                    return Err(Some(v));
                }
            }
        }
    }
    Err(None)
}

/// The pool's lock is held although every actor is done or parked outside the pool.
fn lock_stuck() -> bool {
    with_w(|w| w.pool.is_some() && moracle::snapshot(w).is_none())
}

fn epilogue(sc: &MScenario, sim: &mut Sim, h: &mut MHandle) -> Option<Violation> {
    match drain(sim, h, true) {
        Ok(()) => {}
        Err(Some(v)) => {
            let _ = drain(sim, h, false);
            return Some(v);
        }
        Err(None) => {
            return Some(crate::engine::violation(
                &sc.profile,
                "no_progress",
                "actors could not be drained within the epilogue's step budget".into(),
            ))
        }
    }
    if let Some(v) = with_w(|w| w.pending_violation.take()) {
        return Some(v);
    }
    if lock_stuck() {
        return Some(crate::engine::violation(
            &sc.profile,
            "deadlock",
            "no thread is inside the pool any more but its lock is still held: a thread holds it forever or died holding it".into(),
        ));
    }
    if sc.drop_handles_first {
        // C06(e): every pool handle goes away while objects are still checked out; the objects
        // must remain usable and must be destroyed exactly once.
        let pool = with_w(|w| {
            w.all_handles_dropped = true;
            w.pool.take()
        });
        let calls0 = with_w(|w| w.calls.len());
        let r = std::panic::catch_unwind(std::panic::AssertUnwindSafe(move || drop(pool)));
        if r.is_err() {
            return Some(engine::violation("C06", "object_outlives_pool", "dropping the last pool handle panicked".into()));
        }
        if sc.profile == "C08" {
            // dropping a handle is none of the calls from which the pool may invoke the manager
            let n = with_w(|w| w.calls.len() - calls0);
            if n > 0 {
                let what = with_w(|w| w.calls[calls0].kind.name().to_string());
                return Some(engine::violation(
                    "C08",
                    "call_outside_operation",
                    format!("{n} manager call(s) (first: {what}) were made from inside drop(pool) when the last handle went away"),
                ));
            }
        }
        let held: Vec<SObject> = with_w(|w| {
            let mut v = Vec::new();
            for h in w.held.iter_mut() {
                v.append(h);
            }
            v
        });
        for (k, obj) in held.into_iter().enumerate() {
            let id = obj.id;
            let r = std::panic::catch_unwind(std::panic::AssertUnwindSafe(move || {
                let _ = deadpool::managed::Object::metrics(&obj).recycle_count;
                let alive = deadpool::managed::Object::pool(&obj).is_some();
                if k % 2 == 0 {
                    drop(obj);
                } else {
                    let inner = deadpool::managed::Object::take(obj);
                    drop(inner);
                }
                alive
            }));
            match r {
                Err(p) => {
                    let (_, msg) = describe_panic(&p);
                    return Some(engine::violation("C06", "object_outlives_pool", format!("using object #{id} after every pool handle was dropped panicked: {msg}")));
                }
                Ok(true) => {
                    return Some(engine::violation("C06", "object_outlives_pool", format!("object #{id} still reaches a pool after every handle was dropped")));
                }
                Ok(false) => {}
            }
            let destroyed = with_w(|w| w.objs[id as usize].destroyed.is_some());
            if !destroyed {
                return Some(engine::violation("C06", "object_outlives_pool", format!("object #{id} was not destroyed when its last owner let go of it")));
            }
            with_w(|w| w.cnt.probe("object_used_after_pool_gone"));
        }
        return with_w(|w| w.pending_violation.take());
    }
    // return everything that is still held (controller context: points do not yield)
    let held: Vec<SObject> = with_w(|w| {
        let mut v = Vec::new();
        for h in w.held.iter_mut() {
            v.append(h);
        }
        v
    });
    for obj in held {
        let id = obj.id;
        let opi = with_w(|w| {
            let opi = w.op_invoke(engine::CONTROLLER, 8000, Op::Return { slot: 0, unwinding: false });
            w.ops[opi].target = Some(id);
            w.objs[id as usize].holder = None;
            opi
        });
        let r = std::panic::catch_unwind(std::panic::AssertUnwindSafe(move || drop(obj)));
        let res = match r {
            Ok(()) => OpRes::Unit,
            Err(p) => {
                let (injected, msg) = describe_panic(&p);
                OpRes::Panicked { injected, msg }
            }
        };
        with_w(|w| {
            w.op_return(opi, res);
            moracle::on_return_done(w, opi, id);
        });
    }
    if let Some(v) = with_w(|w| w.pending_violation.take()) {
        return Some(v);
    }
    // final snapshot-based checks before the probe disturbs the books
    if let Some(v) = with_w(|w| moracle::final_checks(w, None)) {
        return Some(v);
    }
    let resized = with_w(|w| w.max_size_log.len() > 1);
    let _ = resized;
    let wants_probe = matches!(sc.profile.as_str(), "C02" | "C03" | "C07" | "C09");
    if wants_probe {
        let (pool, expect, closed) = with_w(|w| {
            (
                w.pool.clone(),
                w.cur_max_size(),
                w.orc.closed_step.is_some(),
            )
        });
        if let Some(pool) = pool {
            let r = moracle::capacity_probe(&pool, expect, closed);
            drop(pool);
            if let Some(v) = with_w(|w| moracle::final_checks(w, r.err())) {
                return Some(v);
            }
        }
    }
    None
}
