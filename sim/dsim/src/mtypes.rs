//! Scenario types for the managed-pool world. A scenario is explicit data
//! (serialisable, shrinkable); nothing in it refers to the PRNG.

use serde::{Deserialize, Serialize};

use crate::engine::Knobs;

#[derive(Clone, Debug, Serialize, Deserialize, PartialEq, Eq)]
pub struct PoolCfg {
    pub max_size: usize,
    pub lifo: bool,
    /// pool-level timeouts in ms (Some(0) = non-blocking)
    pub wait: Option<u64>,
    pub create: Option<u64>,
    pub recycle: Option<u64>,
    pub runtime: bool,
    /// one entry per hook: true = async hook
    pub post_create: Vec<bool>,
    pub pre_recycle: Vec<bool>,
    pub post_recycle: Vec<bool>,
}

#[derive(Clone, Copy, Debug, Serialize, Deserialize, PartialEq, Eq)]
pub enum GetT {
    /// `pool.get()`
    Inherit,
    /// `pool.timeout_get(&Timeouts{..})`
    Explicit {
        wait: Option<u64>,
        create: Option<u64>,
        recycle: Option<u64>,
    },
}

#[derive(Clone, Copy, Debug, Serialize, Deserialize, PartialEq, Eq)]
pub enum Pred {
    AcceptAll,
    RejectAll,
    /// keep object iff bit (id % 32) is set
    Mask(u32),
    /// stateful: reject every k-th call (k >= 1)
    EveryKth(u8),
    /// stateful: keep only the first n objects seen
    FirstN(u8),
}

/// Which call of a get an op-local fault applies to.
#[derive(Clone, Copy, Debug, Serialize, Deserialize, PartialEq, Eq)]
pub enum CallTag {
    Create,
    Recycle,
    PostCreate(u8),
    PreRecycle(u8),
    PostRecycle(u8),
}

/// Op-local fault: the first call of kind `at` made by this get has this outcome
/// (overrides the scenario's outcome tables).
#[derive(Clone, Copy, Debug, Serialize, Deserialize, PartialEq, Eq)]
pub struct OpFault {
    pub at: CallTag,
    pub outcome: Outcome,
}

#[derive(Clone, Copy, Debug, Serialize, Deserialize, PartialEq, Eq)]
pub enum Op {
    Get {
        t: GetT,
        #[serde(default)]
        fault: Option<OpFault>,
        /// wrap the call in `tokio::time::timeout(ms, ..)`
        enclosing: Option<u64>,
        /// the controller may abandon the call at any suspension point
        cancellable: bool,
    },
    /// drop the `slot % held`-th held object (no-op when nothing is held)
    /// `unwinding`: the holder panics; the object is dropped while the stack unwinds
    Return {
        slot: u8,
        #[serde(default)]
        unwinding: bool,
    },
    /// `detach_panics`: the manager's `detach()` panics for the object being taken (the caller
    /// contains the panic)
    Take {
        slot: u8,
        #[serde(default)]
        detach_panics: bool,
    },
    /// deref + metrics of a held object
    Use { slot: u8 },
    Resize { n: usize },
    Close,
    Retain { pred: Pred },
    Status,
    /// drop this actor's pool handle; later pool operations of the actor are skipped
    DropHandle,
    /// `get()` / `timeout_get()` is called and the future dropped before it was ever polled (the
    /// losing branch of a `select!`, an early return)
    GetUnpolled { explicit: bool },
    /// build, use, shrink / retain and close an unrelated second pool (with its own manager)
    Sibling { kind: u8 },
    Nop,
}

#[derive(Clone, Copy, Debug, Serialize, Deserialize, PartialEq, Eq)]
pub enum OKind {
    Ok,
    /// HookError::Message / RecycleError::Message (create: same as ErrBackend)
    ErrMsg,
    ErrBackend,
    /// the returned future panics when polled (sync hooks: the call panics)
    Panic,
    /// the call itself panics before returning a future
    PanicCall,
    /// never completes
    Never,
}

#[derive(Clone, Copy, Debug, Serialize, Deserialize, PartialEq, Eq)]
pub enum OMode {
    /// resolves at the first poll (no suspension point)
    Immediate,
    /// pending until the controller opens the gate
    Gated,
    /// pending until the virtual clock reaches call time + ms
    Delay(u64),
}

#[derive(Clone, Copy, Debug, Serialize, Deserialize, PartialEq, Eq)]
pub struct Outcome {
    pub kind: OKind,
    pub mode: OMode,
}

impl Outcome {
    pub const OK: Outcome = Outcome {
        kind: OKind::Ok,
        mode: OMode::Immediate,
    };
}

#[derive(Clone, Debug, Default, Serialize, Deserialize, PartialEq, Eq)]
pub struct Outcomes {
    /// outcome of the n-th call (beyond the table: Ok, immediate)
    pub create: Vec<Outcome>,
    pub recycle: Vec<Outcome>,
    pub post_create: Vec<Outcome>,
    pub pre_recycle: Vec<Outcome>,
    pub post_recycle: Vec<Outcome>,
}

#[derive(Clone, Debug, Serialize, Deserialize, PartialEq, Eq)]
pub struct MScenario {
    /// property id whose oracles judge the run
    pub profile: String,
    pub pool: PoolCfg,
    pub actors: Vec<Vec<Op>>,
    pub outcomes: Outcomes,
    pub knobs: Knobs,
    pub sched_seed: u64,
    /// epilogue variant: drop every pool handle while objects are still held
    pub drop_handles_first: bool,
    /// force a rest point (drain all gates/ops) every n completed ops (0 = never)
    pub rest_every: u32,
}

impl MScenario {
    pub fn n_ops(&self) -> usize {
        self.actors.iter().map(|a| a.len()).sum()
    }
    pub fn has_panic_outcome(&self) -> bool {
        let o = &self.outcomes;
        o.create
            .iter()
            .chain(&o.recycle)
            .chain(&o.post_create)
            .chain(&o.pre_recycle)
            .chain(&o.post_recycle)
            .any(|x| matches!(x.kind, OKind::Panic | OKind::PanicCall))
            || self.actors.iter().any(|a| a.iter().any(|o| matches!(o, Op::Return { unwinding: true, .. })))
    }
    pub fn has_faults(&self) -> bool {
        let o = &self.outcomes;
        o.create
            .iter()
            .chain(&o.recycle)
            .chain(&o.post_create)
            .chain(&o.pre_recycle)
            .chain(&o.post_recycle)
            .any(|x| x.kind != OKind::Ok)
    }
}
