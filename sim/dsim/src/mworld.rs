//! Managed-pool world: scripted manager and hooks, gates, the ground-truth
//! ledger (independent of the pool's own counters) and the actor bodies.

use std::{
    cell::RefCell,
    collections::BTreeMap,
    future::Future,
    marker::PhantomData,
    panic::{catch_unwind, AssertUnwindSafe},
    pin::Pin,
    task::{Context, Poll, Waker},
    time::Duration,
};

// under --cfg deadpool_verif the pool reads its instants from tokio's paused clock
pub use tokio::time::Instant;

use deadpool::managed::{
    Hook, HookError, HookResult, Manager, Metrics, Object, Pool, PoolError, QueueMode,
    RecycleError, RecycleResult, TimeoutType, Timeouts,
};
use deadpool::{Runtime, Status};

use crate::engine::{
    self, current_actor, current_step, drive, now_ms, op_boundary, register_deadline, DriveStats,
    InjectedPanic, PollEnd, Violation, CONTROLLER,
};
use crate::mtypes::*;
use crate::trace;

// ---------------------------------------------------------------------------
// pooled object, error, manager
// ---------------------------------------------------------------------------

#[derive(Debug)]
pub struct SimObj {
    pub id: u32,
}

impl Drop for SimObj {
    fn drop(&mut self) {
        let id = self.id;
        try_with_w(|w| w.on_destroy(id));
    }
}

#[derive(Debug, Clone, Copy, PartialEq, Eq)]
pub struct SimErr(pub u32);

#[derive(Debug)]
pub struct SimManager;

/// Manager of the sibling pool (`Op::Sibling`): two pools of one process share nothing, so whatever
/// happens to the sibling must not show in the pool under test.
#[derive(Debug)]
pub struct SibManager;

impl Manager for SibManager {
    type Type = u8;
    type Error = SimErr;

    async fn create(&self) -> Result<u8, SimErr> {
        engine::point("harness.dtor");
        Ok(0)
    }
    async fn recycle(&self, _obj: &mut u8, _metrics: &Metrics) -> deadpool::managed::RecycleResult<SimErr> {
        Ok(())
    }
    fn detach(&self, _obj: &mut u8) {
        engine::point("harness.dtor");
    }
}

impl Manager for SimManager {
    type Type = SimObj;
    type Error = SimErr;

    fn create(&self) -> impl Future<Output = Result<SimObj, SimErr>> + Send {
        let g = gate_call(CallKind::Create, None, None);
        GateFut::<Result<SimObj, SimErr>>::new(g)
    }

    fn recycle(
        &self,
        obj: &mut SimObj,
        metrics: &Metrics,
    ) -> impl Future<Output = RecycleResult<SimErr>> + Send {
        let g = gate_call(CallKind::Recycle, Some(obj.id), Some(MSeen::from(metrics)));
        GateFut::<RecycleResult<SimErr>>::new(g)
    }

    fn detach(&self, obj: &mut SimObj) {
        let id = obj.id;
        let mut boom = false;
        try_with_w(|w| {
            w.on_detach(id);
            if w.detach_panic_for.contains(&id) {
                w.detach_panic_for.retain(|x| *x != id);
                boom = true;
            }
        });
        if boom {
            // only ever armed for the object an Object::take() in progress is letting go of
            with_w(|w| w.cnt.fault("detach_panics_in_take"));
            std::panic::panic_any(InjectedPanic(id));
        }
    }
}

pub type SPool = Pool<SimManager>;
pub type SObject = Object<SimManager>;

#[derive(Clone, Copy, Debug, PartialEq, Eq)]
pub struct MSeen {
    pub created: Instant,
    pub recycled: Option<Instant>,
    pub recycle_count: usize,
}

impl From<&Metrics> for MSeen {
    fn from(m: &Metrics) -> Self {
        MSeen {
            created: m.created,
            recycled: m.recycled,
            recycle_count: m.recycle_count,
        }
    }
}

// ---------------------------------------------------------------------------
// ledger records
// ---------------------------------------------------------------------------

#[derive(Clone, Copy, Debug, PartialEq, Eq)]
pub enum CallKind {
    Create,
    Recycle,
    Detach,
    PostCreate(u8),
    PreRecycle(u8),
    PostRecycle(u8),
    Pred,
}

impl CallKind {
    pub fn name(&self) -> String {
        match self {
            CallKind::Create => "create".into(),
            CallKind::Recycle => "recycle".into(),
            CallKind::Detach => "detach".into(),
            CallKind::PostCreate(i) => format!("post_create[{i}]"),
            CallKind::PreRecycle(i) => format!("pre_recycle[{i}]"),
            CallKind::PostRecycle(i) => format!("post_recycle[{i}]"),
            CallKind::Pred => "predicate".into(),
        }
    }
    pub fn code(&self) -> u64 {
        match self {
            CallKind::Create => 1,
            CallKind::Recycle => 2,
            CallKind::Detach => 3,
            CallKind::PostCreate(i) => 10 + *i as u64,
            CallKind::PreRecycle(i) => 20 + *i as u64,
            CallKind::PostRecycle(i) => 30 + *i as u64,
            CallKind::Pred => 4,
        }
    }
}

#[derive(Clone, Copy, Debug, PartialEq, Eq)]
pub enum CallRes {
    /// future created, not resolved yet
    InFlight,
    Ok,
    /// error with id; bool = Message variant
    Err(u32, bool),
    Panic,
    /// future dropped before it resolved
    Dropped,
    /// predicate verdict
    Keep(bool),
    /// synchronous call without result (detach)
    Done,
}

#[derive(Clone, Debug)]
pub struct Call {
    pub step: u64,
    pub end_step: Option<u64>,
    pub ms: u64,
    pub end_ms: Option<u64>,
    pub outcome: Option<Outcome>,
    pub actor: usize,
    pub op: Option<usize>,
    pub kind: CallKind,
    pub obj: Option<u32>,
    pub metrics: Option<MSeen>,
    pub res: CallRes,
    pub polled: bool,
}

#[derive(Clone, Copy, Debug, PartialEq, Eq)]
pub enum GState {
    Fresh,
    Pending,
    Resolved,
    Dropped,
}

pub struct GateRec {
    pub call: usize,
    pub outcome: Outcome,
    pub created_ms: u64,
    pub state: GState,
    pub open: bool,
    pub waker: Option<Waker>,
}

#[derive(Clone, Debug, Default)]
pub struct ObjRec {
    pub created_step: u64,
    pub created_by_op: Option<usize>,
    pub destroyed: Option<u64>,
    pub destroyed_by_actor: usize,
    pub destroyed_in_op: Option<usize>,
    pub detach_steps: Vec<u64>,
    /// global event sequence numbers (finer than steps)
    pub detach_seqs: Vec<u64>,
    pub destroyed_seq: u64,
    pub handouts: u32,
    pub holder: Option<usize>,
    /// Object::take invoked by a caller
    pub taken: bool,
    /// rejected by a retain predicate (caller owns it now)
    pub retain_removed: bool,
    /// failed/cancelled a recycling step or post_create: must never be handed out
    pub dead: bool,
    /// the object was destroyed because the last pool handle went away
    pub pool_gone: bool,
    /// last metrics reported through Object::metrics()
    pub last_reported: Option<MSeen>,
    pub first_created: Option<Instant>,
}

#[derive(Clone, Debug, PartialEq, Eq)]
pub enum ErrV {
    TimeoutWait,
    TimeoutCreate,
    TimeoutRecycle,
    Backend(u32),
    Closed,
    NoRuntime,
    PostCreateMsg(u32),
    PostCreateBackend(u32),
    /// something that does not parse (unknown message)
    Other(String),
}

#[derive(Clone, Debug, PartialEq, Eq)]
pub enum OpRes {
    GetOk(u32),
    GetErr(ErrV),
    Cancelled,
    EnclosingTimeout,
    Panicked { injected: bool, msg: String },
    Unit,
    Retained { retained: usize, removed: Vec<u32> },
    Status(StatusV),
    Taken(u32),
    Used(u32),
    Skipped,
}

#[derive(Clone, Copy, Debug, PartialEq, Eq)]
pub struct StatusV {
    pub max_size: usize,
    pub size: usize,
    pub available: usize,
    pub waiting: usize,
}

impl From<Status> for StatusV {
    fn from(s: Status) -> Self {
        StatusV {
            max_size: s.max_size,
            size: s.size,
            available: s.available,
            waiting: s.waiting,
        }
    }
}

#[derive(Clone, Debug)]
pub struct OpRec {
    pub actor: usize,
    pub idx: usize,
    pub op: Op,
    pub invoke_step: u64,
    pub invoke_ms: u64,
    pub return_step: Option<u64>,
    pub return_ms: Option<u64>,
    pub result: Option<OpRes>,
    pub calls: Vec<usize>,
    /// effective timeouts of a get
    pub eff: (Option<u64>, Option<u64>, Option<u64>),
    pub drive: DriveStats,
    /// step at which the get passed the permit site (from the hook log)
    pub permit_step: Option<u64>,
    /// object the op works on (return/take/use)
    pub target: Option<u32>,
    pub cancelled_by_controller: bool,
    /// result of is_closed() sampled by the actor right before invoking (get ops)
    pub closed_at_invoke: bool,
    pub fault_used: bool,
    /// zero-wait gets: smallest lower bound of free slots seen over the call's interval
    pub free_lb_min: Option<usize>,
    /// idle queue at the start of the step in which this op last left a lock region
    pub last_lock_idle: Option<Vec<u32>>,
    /// Pending polls of the actor when the op was invoked / when it made its first call
    pub pend_base: u32,
    pub pend_first_call: Option<u32>,
    /// virtual time of the first poll that left the call waiting for a slot (its timer starts there)
    pub wait_start_ms: Option<u64>,
    /// the call is inside a blocking `Semaphore::acquire()` right now
    pub sem_waiting: bool,
    /// step of the resize for which this waiting get counts as admitted earlier
    pub exempt_resize: Option<u64>,
    /// C03: books before the call (snapshot, idle ids, status)
    pub snap0: Option<(deadpool::managed::VerifSnapshot, Vec<u32>, StatusV)>,
}

#[derive(Default, Clone, Debug)]
pub struct Counters {
    pub faults: BTreeMap<String, u64>,
    pub probes: BTreeMap<String, u64>,
}

impl Counters {
    pub fn fault(&mut self, k: &str) {
        *self.faults.entry(k.to_string()).or_insert(0) += 1;
    }
    pub fn probe(&mut self, k: &str) {
        *self.probes.entry(k.to_string()).or_insert(0) += 1;
    }
}

pub struct MWorld {
    pub sc: MScenario,
    pub pool: Option<SPool>,
    pub objs: Vec<ObjRec>,
    pub calls: Vec<Call>,
    pub gates: Vec<GateRec>,
    pub ops: Vec<OpRec>,
    pub cur_op: Vec<Option<usize>>,
    pub ctl_op: Option<usize>,
    pub held: Vec<Vec<SObject>>,
    pub next_err: u32,
    pub n_calls: [usize; 5],
    pub draining: bool,
    pub pending_violation: Option<Violation>,
    /// object whose next `Manager::detach` panics (armed by a Take op with `detach_panics`)
    pub detach_panic_for: Vec<u32>,
    pub cnt: Counters,
    pub ops_done: u32,
    pub all_handles_dropped: bool,
    pub max_size_log: Vec<(u64, usize)>,
    pub orc: crate::moracle::OracleState,
    pub seq: u64,
}

thread_local! {
    static WORLD: RefCell<Option<MWorld>> = const { RefCell::new(None) };
}

pub fn install_world(w: MWorld) {
    WORLD.with(|c| *c.borrow_mut() = Some(w));
}

pub fn remove_world() -> Option<MWorld> {
    // take it out first, drop afterwards (dropping objects calls back into try_with_w)
    WORLD.with(|c| c.borrow_mut().take())
}

pub fn with_w<R>(f: impl FnOnce(&mut MWorld) -> R) -> R {
    engine::no_yield(|| {
        WORLD.with(|c| {
            let mut b = c.borrow_mut();
            f(b.as_mut().expect("no world installed"))
        })
    })
}

pub fn try_with_w(f: impl FnOnce(&mut MWorld)) {
    let _ = engine::no_yield(|| WORLD.try_with(|c| {
        if let Ok(mut b) = c.try_borrow_mut() {
            if let Some(w) = b.as_mut() {
                f(w)
            }
        }
    }));
}

fn cur_op_of(w: &MWorld, actor: usize) -> Option<usize> {
    if actor == CONTROLLER {
        w.ctl_op
    } else {
        w.cur_op.get(actor).copied().flatten()
    }
}

impl MWorld {
    pub fn new(sc: MScenario) -> Self {
        let n = sc.actors.len();
        MWorld {
            max_size_log: vec![(0, sc.pool.max_size)],
            sc,
            pool: None,
            objs: Vec::new(),
            calls: Vec::new(),
            gates: Vec::new(),
            ops: Vec::new(),
            cur_op: vec![None; n],
            ctl_op: None,
            held: (0..n).map(|_| Vec::new()).collect(),
            next_err: 0,
            n_calls: [0; 5],
            draining: false,
            pending_violation: None,
            detach_panic_for: Vec::new(),
            cnt: Counters::default(),
            ops_done: 0,
            all_handles_dropped: false,
            orc: Default::default(),
            seq: 0,
        }
    }

    pub fn violate(&mut self, property: &str, clause: &str, detail: String) {
        if self.pending_violation.is_none() {
            self.pending_violation = Some(crate::engine::violation(property, clause, detail));
        }
    }

    fn on_destroy(&mut self, id: u32) {
        let step = current_step();
        let actor = current_actor();
        let op = cur_op_of(self, actor);
        engine::log_event(&[100, id as u64]);
        trace!("  ~SimObj#{} destroyed (actor {}, op {:?})", id, actor_name(actor), op);
        let gone = self.all_handles_dropped;
        self.seq += 1;
        let seq = self.seq;
        let o = &mut self.objs[id as usize];
        if o.destroyed.is_some() {
            let d = format!("object #{id} destroyed twice");
            self.violate("HARNESS", "double_destroy", d);
            return;
        }
        o.destroyed = Some(step);
        o.destroyed_seq = seq;
        o.destroyed_by_actor = actor;
        o.destroyed_in_op = op;
        o.pool_gone = gone;
        o.holder = None;
    }

    fn on_detach(&mut self, id: u32) {
        let step = current_step();
        let actor = current_actor();
        let op = cur_op_of(self, actor);
        engine::log_event(&[101, id as u64]);
        trace!("  detach(#{}) (actor {}, op {:?})", id, actor_name(actor), op);
        self.calls.push(Call {
            step,
            end_step: Some(step),
            ms: now_ms(),
            end_ms: Some(now_ms()),
            outcome: None,
            actor,
            op,
            kind: CallKind::Detach,
            obj: Some(id),
            metrics: None,
            res: CallRes::Done,
            polled: true,
        });
        let ci = self.calls.len() - 1;
        if let Some(op) = op {
            self.ops[op].calls.push(ci);
        }
        self.objs[id as usize].detach_steps.push(step);
        self.seq += 1;
        let seq = self.seq;
        self.objs[id as usize].detach_seqs.push(seq);
        if self.sc.profile == "C08" && !self.draining {
            crate::moracle::c08_on_call(self, ci);
        }
    }

    pub fn new_obj(&mut self) -> u32 {
        let id = self.objs.len() as u32;
        let actor = current_actor();
        self.objs.push(ObjRec {
            created_step: current_step(),
            created_by_op: cur_op_of(self, actor),
            destroyed_by_actor: CONTROLLER,
            ..Default::default()
        });
        engine::log_event(&[102, id as u64]);
        id
    }

    pub fn op_invoke(&mut self, actor: usize, idx: usize, op: Op) -> usize {
        let rec = OpRec {
            actor,
            idx,
            op,
            invoke_step: current_step(),
            invoke_ms: now_ms(),
            return_step: None,
            return_ms: None,
            result: None,
            calls: Vec::new(),
            eff: (None, None, None),
            drive: DriveStats::default(),
            permit_step: None,
            target: None,
            cancelled_by_controller: false,
            closed_at_invoke: false,
            fault_used: false,
            free_lb_min: None,
            last_lock_idle: None,
            pend_base: if actor == CONTROLLER { 0 } else { engine::pending_count(actor) },
            pend_first_call: None,
            wait_start_ms: None,
            sem_waiting: false,
            exempt_resize: None,
            snap0: None,
        };
        self.ops.push(rec);
        let i = self.ops.len() - 1;
        if actor == CONTROLLER {
            self.ctl_op = Some(i);
        } else {
            self.cur_op[actor] = Some(i);
        }
        engine::log_event(&[110, actor as u64, idx as u64]);
        trace!("{} invokes op#{} {:?}", actor_name(actor), i, op);
        i
    }

    pub fn op_return(&mut self, opi: usize, res: OpRes) {
        let actor = self.ops[opi].actor;
        trace!("{} op#{} returns {:?}", actor_name(actor), opi, res);
        engine::log_str(&format!("{:?}", res));
        self.ops[opi].return_step = Some(current_step());
        self.ops[opi].return_ms = Some(now_ms());
        self.ops[opi].result = Some(res);
        if actor == CONTROLLER {
            self.ctl_op = None;
        } else {
            self.cur_op[actor] = None;
            self.ops_done += 1;
            let _ = self.orc.last_op_of_actor.insert(actor, opi);
        }
    }

    /// Ledger update for an object handed to a caller by get().
    pub fn handout(&mut self, opi: usize, id: u32, m: MSeen) {
        let actor = self.ops[opi].actor;
        let profile = self.sc.profile.clone();
        let o = &mut self.objs[id as usize];
        let mut bad = None;
        if let Some(h) = o.holder {
            bad = Some(format!("object #{id} handed out to {} while {} still holds it", actor_name(actor), actor_name(h)));
        } else if o.destroyed.is_some() {
            bad = Some(format!("object #{id} handed out after it was destroyed"));
        } else if o.taken || o.retain_removed {
            bad = Some(format!("object #{id} handed out after it was taken / removed by retain"));
        } else if o.dead {
            bad = Some(format!("object #{id} handed out although a recycling / post_create step had failed, timed out or been cancelled for it"));
        }
        let _ = self.orc.idle_stamp.remove(&id);
        let o = &mut self.objs[id as usize];
        let prev_reported = o.last_reported;
        o.holder = Some(actor);
        o.handouts += 1;
        let h = o.handouts;
        o.last_reported = Some(m);
        if o.first_created.is_none() {
            o.first_created = Some(m.created);
        }
        if let Some(d) = bad {
            // judged by the properties that state it: C01 (one holder at a time, only pooled
            // objects), C03 / C04 (an abandoned or rejected object is never handed out)
            if matches!(profile.as_str(), "C01" | "C03" | "C04") {
                self.violate(&profile, "exclusive_handout", d);
            }
        }
        if profile == "C13" {
            let since = cur_op_of(self, actor).map(|o| self.ops[o].invoke_ms);
            crate::moracle::c13_on_handout(self, id, m, prev_reported, h, since);
        }
    }

    pub fn n_inflight_creates(&self) -> usize {
        self.gates
            .iter()
            .filter(|g| {
                self.calls[g.call].kind == CallKind::Create
                    && matches!(g.state, GState::Fresh | GState::Pending)
            })
            .count()
    }

    /// Objects that physically exist and have not been handed over to a caller for good.
    pub fn n_live(&self) -> usize {
        self.objs
            .iter()
            .filter(|o| o.destroyed.is_none() && !o.taken && !o.retain_removed)
            .count()
    }

    pub fn n_out(&self) -> usize {
        self.objs
            .iter()
            .filter(|o| o.holder.is_some() && o.destroyed.is_none() && !o.taken)
            .count()
    }

    pub fn cur_max_size(&self) -> usize {
        self.max_size_log.last().unwrap().1
    }
}

pub fn actor_name(a: usize) -> String {
    if a == CONTROLLER {
        "ctl".to_string()
    } else {
        format!("A{a}")
    }
}

// ---------------------------------------------------------------------------
// gates
// ---------------------------------------------------------------------------

fn outcome_for(w: &mut MWorld, kind: CallKind) -> Outcome {
    let (slot, table): (usize, &Vec<Outcome>) = match kind {
        CallKind::Create => (0, &w.sc.outcomes.create),
        CallKind::Recycle => (1, &w.sc.outcomes.recycle),
        CallKind::PostCreate(_) => (2, &w.sc.outcomes.post_create),
        CallKind::PreRecycle(_) => (3, &w.sc.outcomes.pre_recycle),
        CallKind::PostRecycle(_) => (4, &w.sc.outcomes.post_recycle),
        _ => unreachable!(),
    };
    let n = w.n_calls[slot];
    // op-local fault of the get in progress (first matching call only)
    let actor = current_actor();
    if actor != CONTROLLER && !w.draining {
        if let Some(opi) = w.cur_op.get(actor).copied().flatten() {
            if let Op::Get { fault: Some(f), .. } = w.ops[opi].op {
                let hit = match (f.at, kind) {
                    (CallTag::Create, CallKind::Create) => true,
                    (CallTag::Recycle, CallKind::Recycle) => true,
                    (CallTag::PostCreate(a), CallKind::PostCreate(b)) => a == b,
                    (CallTag::PreRecycle(a), CallKind::PreRecycle(b)) => a == b,
                    (CallTag::PostRecycle(a), CallKind::PostRecycle(b)) => a == b,
                    _ => false,
                };
                if hit && !w.ops[opi].fault_used {
                    w.ops[opi].fault_used = true;
                    w.n_calls[slot] += 1;
                    return f.outcome;
                }
            }
        }
    }
    let o = if w.draining || w.ctl_op.is_some() && current_actor() == CONTROLLER {
        // epilogue / probes run fault-free
        Outcome::OK
    } else {
        table.get(n).copied().unwrap_or(Outcome::OK)
    };
    w.n_calls[slot] += 1;
    o
}

/// Logs a manager / hook call and creates its gate. May panic (PanicCall).
fn gate_call(kind: CallKind, obj: Option<u32>, metrics: Option<MSeen>) -> u32 {
    let (g, panic_now) = with_w(|w| {
        let actor = current_actor();
        let op = cur_op_of(w, actor);
        let outcome = outcome_for(w, kind);
        let step = current_step();
        w.calls.push(Call {
            step,
            end_step: None,
            ms: now_ms(),
            end_ms: None,
            outcome: Some(outcome),
            actor,
            op,
            kind,
            obj,
            metrics,
            res: CallRes::InFlight,
            polled: false,
        });
        let ci = w.calls.len() - 1;
        if let Some(op) = op {
            if w.ops[op].calls.is_empty() && actor != CONTROLLER {
                w.ops[op].pend_first_call = Some(engine::pending_count(actor));
            }
            w.ops[op].calls.push(ci);
            // deadlines of the phase that starts now
            let eff = w.ops[op].eff;
            let t = match kind {
                CallKind::Create => eff.1,
                CallKind::Recycle => eff.2,
                _ => None,
            };
            if let Some(ms) = t {
                if ms > 0 {
                    register_deadline(ms);
                }
            }
        }
        if let OMode::Delay(ms) = outcome.mode {
            register_deadline(ms);
        }
        engine::log_event(&[120, kind.code(), obj.map(|o| o as u64 + 1).unwrap_or(0)]);
        trace!(
            "  {}({}) called by {} op {:?} -> {:?}",
            kind.name(),
            obj.map(|o| format!("#{o}")).unwrap_or_default(),
            actor_name(actor),
            op,
            outcome
        );
        crate::moracle::on_call(w, ci);
        w.gates.push(GateRec {
            call: ci,
            outcome,
            created_ms: now_ms(),
            state: GState::Fresh,
            open: false,
            waker: None,
        });
        let g = (w.gates.len() - 1) as u32;
        let panic_now = outcome.kind == OKind::PanicCall;
        if panic_now {
            w.gates[g as usize].state = GState::Resolved;
            w.calls[ci].res = CallRes::Panic;
            w.calls[ci].end_step = Some(step);
            w.calls[ci].end_ms = Some(now_ms());
            w.cnt.fault(&format!("{}_panic_in_call", kind_family(kind)));
            crate::moracle::on_call_end(w, ci);
        }
        (g, panic_now)
    });
    if panic_now {
        std::panic::panic_any(InjectedPanic(g));
    }
    g
}

fn kind_family(k: CallKind) -> &'static str {
    match k {
        CallKind::Create => "create",
        CallKind::Recycle => "recycle",
        CallKind::PostCreate(_) => "hook_post_create",
        CallKind::PreRecycle(_) => "hook_pre_recycle",
        CallKind::PostRecycle(_) => "hook_post_recycle",
        CallKind::Detach => "detach",
        CallKind::Pred => "pred",
    }
}

pub trait GateOut: Sized {
    fn ok(w: &mut MWorld) -> Self;
    fn err(id: u32, msg: bool) -> Self;
}

impl GateOut for Result<SimObj, SimErr> {
    fn ok(w: &mut MWorld) -> Self {
        Ok(SimObj { id: w.new_obj() })
    }
    fn err(id: u32, _msg: bool) -> Self {
        Err(SimErr(id))
    }
}

impl GateOut for RecycleResult<SimErr> {
    fn ok(_w: &mut MWorld) -> Self {
        Ok(())
    }
    fn err(id: u32, msg: bool) -> Self {
        if msg {
            Err(RecycleError::message(format!("E{id}")))
        } else {
            Err(RecycleError::Backend(SimErr(id)))
        }
    }
}

impl GateOut for HookResult<SimErr> {
    fn ok(_w: &mut MWorld) -> Self {
        Ok(())
    }
    fn err(id: u32, msg: bool) -> Self {
        if msg {
            Err(HookError::message(format!("E{id}")))
        } else {
            Err(HookError::Backend(SimErr(id)))
        }
    }
}

pub struct GateFut<T> {
    gate: u32,
    done: bool,
    _p: PhantomData<fn() -> T>,
}

impl<T> GateFut<T> {
    fn new(gate: u32) -> Self {
        GateFut {
            gate,
            done: false,
            _p: PhantomData,
        }
    }
}

enum GateAct<T> {
    Pending,
    Ready(T),
    Panic,
}

fn gate_poll<T: GateOut>(gate: u32, waker: Option<&Waker>) -> GateAct<T> {
    with_w(|w| {
        let now = now_ms();
        let step = current_step();
        let g = &mut w.gates[gate as usize];
        let ci = g.call;
        w.calls[ci].polled = true;
        let ready = match g.outcome.mode {
            OMode::Immediate => true,
            OMode::Gated => g.open,
            OMode::Delay(ms) => now >= g.created_ms + ms,
        };
        if g.outcome.kind == OKind::Never || !ready {
            g.waker = waker.cloned();
            g.state = GState::Pending;
            return GateAct::Pending;
        }
        g.state = GState::Resolved;
        g.waker = None;
        let kind = w.calls[ci].kind;
        let okind = g.outcome.kind;
        w.calls[ci].end_step = Some(step);
        w.calls[ci].end_ms = Some(now);
        match okind {
            OKind::Ok => {
                w.calls[ci].res = CallRes::Ok;
                engine::log_event(&[121, gate as u64]);
                let v = T::ok(w);
                crate::moracle::on_call_end(w, ci);
                GateAct::Ready(v)
            }
            OKind::ErrMsg | OKind::ErrBackend => {
                let id = w.next_err;
                w.next_err += 1;
                let msg = okind == OKind::ErrMsg && kind != CallKind::Create;
                w.calls[ci].res = CallRes::Err(id, msg);
                w.cnt.fault(&format!(
                    "{}_err_{}",
                    kind_family(kind),
                    if msg { "message" } else { "backend" }
                ));
                engine::log_event(&[122, gate as u64, id as u64]);
                crate::moracle::on_call_end(w, ci);
                GateAct::Ready(T::err(id, msg))
            }
            OKind::Panic | OKind::PanicCall => {
                w.calls[ci].res = CallRes::Panic;
                w.cnt.fault(&format!("{}_panic", kind_family(kind)));
                engine::log_event(&[123, gate as u64]);
                crate::moracle::on_call_end(w, ci);
                GateAct::Panic
            }
            OKind::Never => unreachable!(),
        }
    })
}

impl<T: GateOut> Future for GateFut<T> {
    type Output = T;
    fn poll(mut self: Pin<&mut Self>, cx: &mut Context<'_>) -> Poll<T> {
        assert!(!self.done, "gate future polled after completion");
        match gate_poll::<T>(self.gate, Some(cx.waker())) {
            GateAct::Pending => Poll::Pending,
            GateAct::Ready(v) => {
                self.done = true;
                Poll::Ready(v)
            }
            GateAct::Panic => {
                self.done = true;
                std::panic::panic_any(InjectedPanic(self.gate))
            }
        }
    }
}

impl<T> Drop for GateFut<T> {
    fn drop(&mut self) {
        if self.done {
            return;
        }
        let gate = self.gate;
        try_with_w(|w| {
            let g = &mut w.gates[gate as usize];
            if matches!(g.state, GState::Fresh | GState::Pending) {
                let was_polled = g.state == GState::Pending;
                g.state = GState::Dropped;
                g.waker = None;
                let ci = g.call;
                w.calls[ci].res = CallRes::Dropped;
                w.calls[ci].end_step = Some(current_step());
                w.calls[ci].end_ms = Some(now_ms());
                let kind = w.calls[ci].kind;
                engine::log_event(&[124, gate as u64]);
                trace!("  {} future dropped unresolved", kind.name());
                if was_polled {
                    w.cnt.fault(&format!("abandoned_at_{}", kind_family(kind)));
                }
                crate::moracle::on_call_end(w, ci);
            }
        });
    }
}

/// Synchronous hook call.
fn sync_hook(kind: CallKind, obj: u32, m: MSeen) -> HookResult<SimErr> {
    let g = gate_call(kind, Some(obj), Some(m));
    // sync hooks resolve at once whatever the mode says; Never is treated as Ok
    let r = with_w(|w| {
        let g = &mut w.gates[g as usize];
        g.outcome.mode = OMode::Immediate;
        if g.outcome.kind == OKind::Never {
            g.outcome.kind = OKind::Ok;
        }
    });
    let _ = r;
    match gate_poll::<HookResult<SimErr>>(g, None) {
        GateAct::Ready(v) => v,
        GateAct::Panic => std::panic::panic_any(InjectedPanic(g)),
        GateAct::Pending => unreachable!(),
    }
}

pub fn openable_gates(out: &mut Vec<u32>) {
    with_w(|w| {
        for (i, g) in w.gates.iter().enumerate() {
            if g.state == GState::Pending
                && !g.open
                && g.outcome.mode == OMode::Gated
                && g.outcome.kind != OKind::Never
            {
                out.push(i as u32);
            }
        }
    })
}

pub fn open_gate(g: u32) {
    let waker = with_w(|w| {
        let g = &mut w.gates[g as usize];
        g.open = true;
        g.waker.take()
    });
    if let Some(wk) = waker {
        wk.wake();
    }
}

pub fn wake_due_gates() {
    let now = now_ms();
    let wakers: Vec<Waker> = with_w(|w| {
        let mut v = Vec::new();
        for g in w.gates.iter_mut() {
            if g.state == GState::Pending && g.outcome.kind != OKind::Never {
                if let OMode::Delay(ms) = g.outcome.mode {
                    if now >= g.created_ms + ms {
                        if let Some(wk) = g.waker.take() {
                            v.push(wk);
                        }
                    }
                }
            }
        }
        v
    });
    for wk in wakers {
        wk.wake();
    }
}

// ---------------------------------------------------------------------------
// pool construction
// ---------------------------------------------------------------------------

fn ms(v: Option<u64>) -> Option<Duration> {
    // u64::MAX stands for "practically no timeout": the largest Duration there is
    v.map(|v| if v == u64::MAX { Duration::MAX } else { Duration::from_millis(v) })
}

pub enum Built {
    Pool(SPool),
    NoRuntime,
}

pub fn build_pool(cfg: &PoolCfg) -> Built {
    let mut b = SPool::builder(SimManager)
        .max_size(cfg.max_size)
        .queue_mode(if cfg.lifo {
            QueueMode::Lifo
        } else {
            QueueMode::Fifo
        })
        .timeouts(Timeouts {
            wait: ms(cfg.wait),
            create: ms(cfg.create),
            recycle: ms(cfg.recycle),
        });
    if cfg.runtime {
        b = b.runtime(Runtime::Tokio1);
    }
    for (i, is_async) in cfg.post_create.iter().enumerate() {
        b = b.post_create(mk_hook(CallKind::PostCreate(i as u8), *is_async));
    }
    for (i, is_async) in cfg.pre_recycle.iter().enumerate() {
        b = b.pre_recycle(mk_hook(CallKind::PreRecycle(i as u8), *is_async));
    }
    for (i, is_async) in cfg.post_recycle.iter().enumerate() {
        b = b.post_recycle(mk_hook(CallKind::PostRecycle(i as u8), *is_async));
    }
    match b.build() {
        Ok(p) => Built::Pool(p),
        Err(_) => Built::NoRuntime,
    }
}

fn mk_hook(kind: CallKind, is_async: bool) -> Hook<SimManager> {
    if is_async {
        Hook::async_fn(move |obj: &mut SimObj, m: &Metrics| {
            let g = gate_call(kind, Some(obj.id), Some(MSeen::from(m)));
            Box::pin(GateFut::<HookResult<SimErr>>::new(g))
        })
    } else {
        Hook::sync_fn(move |obj: &mut SimObj, m: &Metrics| sync_hook(kind, obj.id, MSeen::from(m)))
    }
}

// ---------------------------------------------------------------------------
// actor bodies
// ---------------------------------------------------------------------------

pub fn err_v(e: &PoolError<SimErr>) -> ErrV {
    fn parse(s: &str) -> Option<u32> {
        s.strip_prefix('E')?.parse().ok()
    }
    match e {
        PoolError::Timeout(TimeoutType::Wait) => ErrV::TimeoutWait,
        PoolError::Timeout(TimeoutType::Create) => ErrV::TimeoutCreate,
        PoolError::Timeout(TimeoutType::Recycle) => ErrV::TimeoutRecycle,
        PoolError::Backend(SimErr(i)) => ErrV::Backend(*i),
        PoolError::Closed => ErrV::Closed,
        PoolError::NoRuntimeSpecified => ErrV::NoRuntime,
        PoolError::PostCreateHook(HookError::Backend(SimErr(i))) => ErrV::PostCreateBackend(*i),
        PoolError::PostCreateHook(HookError::Message(m)) => match parse(m) {
            Some(i) => ErrV::PostCreateMsg(i),
            None => ErrV::Other(m.to_string()),
        },
    }
}

pub fn describe_panic(p: &Box<dyn std::any::Any + Send>) -> (bool, String) {
    if let Some(i) = p.downcast_ref::<InjectedPanic>() {
        (true, format!("injected(gate {})", i.0))
    } else {
        let loc = engine::take_last_panic().unwrap_or_else(|| "<unknown>".into());
        (false, loc)
    }
}

pub fn effective_timeouts(cfg: &PoolCfg, t: &GetT) -> (Option<u64>, Option<u64>, Option<u64>) {
    match t {
        GetT::Inherit => (cfg.wait, cfg.create, cfg.recycle),
        GetT::Explicit {
            wait,
            create,
            recycle,
        } => (*wait, *create, *recycle),
    }
}

/// Performs a get on behalf of `actor` (an actor coroutine). Returns the object if any.
fn do_get(
    actor: usize,
    idx: usize,
    op: Op,
    pool: &SPool,
    t: GetT,
    enclosing: Option<u64>,
) -> Option<SObject> {
    let closed = pool.is_closed();
    let opi = with_w(|w| {
        let opi = w.op_invoke(actor, idx, op);
        let eff = effective_timeouts(&w.sc.pool, &t);
        w.ops[opi].eff = eff;
        w.ops[opi].closed_at_invoke = closed;
        if let Some(ms) = eff.0 {
            if ms > 0 && w.sc.pool.runtime {
                register_deadline(ms);
            }
        }
        if let Some(ms) = enclosing {
            register_deadline(ms);
        }
        crate::moracle::on_get_invoke(w, opi);
        opi
    });
    let inner = async {
        match t {
            GetT::Inherit => pool.get().await,
            GetT::Explicit {
                wait,
                create,
                recycle,
            } => {
                pool.timeout_get(&Timeouts {
                    wait: ms(wait),
                    create: ms(create),
                    recycle: ms(recycle),
                })
                .await
            }
        }
    };
    let mut stats = DriveStats::default();
    let end: PollEnd<Option<Result<SObject, PoolError<SimErr>>>> = match enclosing {
        Some(d) => drive(
            async { tokio::time::timeout(Duration::from_millis(d), inner).await.ok() },
            &mut stats,
        ),
        None => drive(async { Some(inner.await) }, &mut stats),
    };
    let mut out = None;
    let res = match end {
        PollEnd::Ready(Some(Ok(obj))) => {
            let id = obj.id;
            let m = MSeen::from(Object::metrics(&obj));
            with_w(|w| w.handout(opi, id, m));
            out = Some(obj);
            OpRes::GetOk(id)
        }
        PollEnd::Ready(Some(Err(e))) => OpRes::GetErr(err_v(&e)),
        PollEnd::Ready(None) => {
            with_w(|w| w.cnt.fault("enclosing_timeout_fired"));
            OpRes::EnclosingTimeout
        }
        PollEnd::Cancelled => {
            with_w(|w| {
                w.cnt.fault("get_future_dropped");
                w.ops[opi].cancelled_by_controller = true;
            });
            OpRes::Cancelled
        }
        PollEnd::Panicked(p) => {
            let (injected, msg) = describe_panic(&p);
            OpRes::Panicked { injected, msg }
        }
    };
    with_w(|w| {
        w.ops[opi].drive = stats;
        w.op_return(opi, res);
        crate::moracle::on_get_return(w, opi);
    });
    out
}

fn guarded<R>(f: impl FnOnce() -> R) -> Result<R, OpRes> {
    match catch_unwind(AssertUnwindSafe(f)) {
        Ok(r) => Ok(r),
        Err(p) => {
            let (injected, msg) = describe_panic(&p);
            Err(OpRes::Panicked { injected, msg })
        }
    }
}

pub struct PredState {
    pub pred: Pred,
    pub calls: u32,
}

impl PredState {
    pub fn eval(&mut self, id: u32) -> bool {
        self.calls += 1;
        match self.pred {
            Pred::AcceptAll => true,
            Pred::RejectAll => false,
            Pred::Mask(m) => m & (1 << (id % 32)) != 0,
            Pred::EveryKth(k) => self.calls % (k.max(1) as u32) != 0,
            Pred::FirstN(n) => self.calls <= n as u32,
        }
    }
}

fn take_held(actor: usize, slot: u8) -> Option<SObject> {
    with_w(|w| {
        let h = &mut w.held[actor];
        if h.is_empty() {
            None
        } else {
            let i = slot as usize % h.len();
            Some(h.remove(i))
        }
    })
}

pub fn run_op(actor: usize, idx: usize, op: Op, pool: &mut Option<SPool>) {
    match op {
        Op::Get {
            t,
            enclosing,
            cancellable: _,
            fault: _,
        } => {
            let Some(p) = pool.as_ref() else { return };
            if let Some(obj) = do_get(actor, idx, op, p, t, enclosing) {
                with_w(|w| w.held[actor].push(obj));
            }
        }
        Op::Return { slot, unwinding } => {
            let Some(obj) = take_held(actor, slot) else { return };
            let id = obj.id;
            let opi = with_w(|w| {
                let opi = w.op_invoke(actor, idx, op);
                w.ops[opi].target = Some(id);
                w.objs[id as usize].holder = None;
                crate::moracle::on_return_invoke(w, opi, id);
                opi
            });
            let r = if unwinding {
                // the holder panics: its object goes back to the pool from inside the unwinding
                with_w(|w| w.cnt.fault("object_dropped_by_unwinding"));
                #[allow(unreachable_code)]
                let r = guarded(move || {
                    let _owned = obj;
                    std::panic::panic_any(InjectedPanic(id));
                });
                match r {
                    Err(OpRes::Panicked { injected: true, .. }) => Ok(()),
                    other => other,
                }
            } else {
                guarded(move || drop(obj))
            };
            with_w(|w| {
                w.op_return(opi, r.err().unwrap_or(OpRes::Unit));
                crate::moracle::on_return_done(w, opi, id);
            });
        }
        Op::Take { slot, detach_panics } => {
            let Some(obj) = take_held(actor, slot) else { return };
            let id = obj.id;
            let opi = with_w(|w| {
                let opi = w.op_invoke(actor, idx, op);
                w.ops[opi].target = Some(id);
                w.objs[id as usize].taken = true;
                w.objs[id as usize].holder = None;
                if detach_panics {
                    w.detach_panic_for.push(id);
                }
                crate::moracle::on_take_invoke(w, opi, id);
                opi
            });
            let r = guarded(move || Object::take(obj));
            let res = match r {
                Ok(inner) => {
                    let got = inner.id;
                    drop(inner);
                    OpRes::Taken(got)
                }
                Err(e) => e,
            };
            with_w(|w| {
                w.detach_panic_for.retain(|x| *x != id);
                w.op_return(opi, res);
                crate::moracle::on_take_done(w, opi, id);
            });
        }
        Op::Use { slot } => {
            let seen = with_w(|w| {
                let h = &w.held[actor];
                if h.is_empty() {
                    None
                } else {
                    let o = &h[slot as usize % h.len()];
                    Some((o.id, MSeen::from(Object::metrics(o))))
                }
            });
            let Some((id, m)) = seen else { return };
            with_w(|w| {
                let opi = w.op_invoke(actor, idx, op);
                w.ops[opi].target = Some(id);
                crate::moracle::on_metrics_reported(w, id, m);
                w.op_return(opi, OpRes::Used(id));
            });
        }
        Op::Resize { n } => {
            let Some(p) = pool.as_ref() else { return };
            let opi = with_w(|w| {
                let opi = w.op_invoke(actor, idx, op);
                crate::moracle::on_resize_invoke(w, opi, n);
                opi
            });
            let r = guarded(|| p.resize(n));
            let closed = p.is_closed();
            with_w(|w| {
                w.op_return(opi, r.err().unwrap_or(OpRes::Unit));
                crate::moracle::on_resize_done(w, opi, n, closed);
            });
        }
        Op::Close => {
            let Some(p) = pool.as_ref() else { return };
            let opi = with_w(|w| {
                let opi = w.op_invoke(actor, idx, op);
                crate::moracle::on_close_invoke(w, opi);
                opi
            });
            let r = guarded(|| p.close());
            with_w(|w| {
                w.op_return(opi, r.err().unwrap_or(OpRes::Unit));
                crate::moracle::on_close_done(w, opi);
            });
        }
        Op::Retain { pred } => {
            let Some(p) = pool.as_ref() else { return };
            let opi = with_w(|w| {
                let opi = w.op_invoke(actor, idx, op);
                crate::moracle::on_retain_invoke(w, opi);
                opi
            });
            let mut st = PredState { pred, calls: 0 };
            let r = guarded(|| {
                p.retain(|obj, m| {
                    let id = obj.id;
                    // a user predicate takes time: let other threads run while retain() is here
                    engine::point("harness.pred");
                    let keep = st.eval(id);
                    with_w(|w| {
                        let step = current_step();
                        w.calls.push(Call {
                            step,
                            end_step: Some(step),
                            ms: now_ms(),
                            end_ms: Some(now_ms()),
                            outcome: None,
                            actor,
                            op: Some(opi),
                            kind: CallKind::Pred,
                            obj: Some(id),
                            metrics: Some(MSeen::from(&m)),
                            res: CallRes::Keep(keep),
                            polled: true,
                        });
                        let ci = w.calls.len() - 1;
                        w.ops[opi].calls.push(ci);
                        if w.orc.idle_prev_valid && !w.orc.retain_idle_at_lock.contains_key(&opi) {
                            let idle = w.orc.idle_prev.clone();
                            let _ = w.orc.retain_idle_at_lock.insert(opi, idle);
                        }
                        if !keep {
                            w.objs[id as usize].retain_removed = true;
                        }
                        crate::moracle::on_call(w, ci);
                    });
                    keep
                })
            });
            let res = match r {
                Ok(rr) => {
                    let removed: Vec<u32> = rr.removed.iter().map(|o| o.id).collect();
                    let retained = rr.retained;
                    drop(rr);
                    OpRes::Retained { retained, removed }
                }
                Err(e) => e,
            };
            with_w(|w| {
                w.op_return(opi, res);
                crate::moracle::on_retain_done(w, opi);
            });
        }
        Op::Status => {
            let Some(p) = pool.as_ref() else { return };
            let opi = with_w(|w| {
                let opi = w.op_invoke(actor, idx, op);
                crate::moracle::on_status_invoke(w, opi);
                opi
            });
            let r = guarded(|| p.status());
            let res = match r {
                Ok(s) => OpRes::Status(s.into()),
                Err(e) => e,
            };
            with_w(|w| {
                w.op_return(opi, res);
                crate::moracle::on_status_done(w, opi);
            });
        }
        Op::DropHandle => {
            let opi = with_w(|w| w.op_invoke(actor, idx, op));
            let r = guarded(|| drop(pool.take()));
            with_w(|w| w.op_return(opi, r.err().unwrap_or(OpRes::Unit)));
        }
        Op::Nop => {}
        Op::GetUnpolled { explicit } => {
            let Some(p) = pool.as_ref() else { return };
            let opi = with_w(|w| {
                w.cnt.fault("get_future_dropped_unpolled");
                w.op_invoke(actor, idx, op)
            });
            let r = guarded(|| {
                if explicit {
                    let t = Timeouts::new();
                    let f = p.timeout_get(&t);
                    drop(f);
                } else {
                    let f = p.get();
                    drop(f);
                }
            });
            with_w(|w| w.op_return(opi, r.err().unwrap_or(OpRes::Unit)));
        }
        Op::Sibling { kind } => {
            let opi = with_w(|w| {
                w.cnt.fault("sibling_pool_churn");
                w.op_invoke(actor, idx, op)
            });
            let r = guarded(|| {
                let p: Pool<SibManager> = Pool::builder(SibManager)
                    .max_size(2)
                    .runtime(deadpool::Runtime::Tokio1)
                    .wait_timeout(Some(std::time::Duration::from_millis(5)))
                    .build()
                    .expect("sibling pool");
                let mut st = DriveStats::default();
                let a = drive(p.get(), &mut st);
                let b = drive(p.get(), &mut st);
                drop(a);
                drop(b);
                if kind % 2 == 0 {
                    p.resize(0);
                } else {
                    let _ = p.retain(|_, _| false);
                }
                p.close();
            });
            with_w(|w| w.op_return(opi, r.err().unwrap_or(OpRes::Unit)));
        }
    }
}

pub fn actor_body(actor: usize) -> Box<dyn FnOnce()> {
    let (ops, pool) = with_w(|w| (w.sc.actors[actor].clone(), w.pool.clone()));
    Box::new(move || {
        let mut pool = pool;
        for (k, op) in ops.iter().enumerate() {
            op_boundary();
            if with_w(|w| w.draining) {
                break;
            }
            run_op(actor, k, *op, &mut pool);
        }
        // the actor's pool handle goes away with the actor
        drop(pool);
    })
}
