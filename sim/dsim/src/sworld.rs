//! SyncWrapper world (C14): the blocking thread pool is simulated — every
//! `spawn_blocking` job becomes a worker actor — so that creation, interact closures and the
//! destructor of the wrapped value can be overtaken, cancelled and interleaved at will.

use std::{
    cell::RefCell,
    collections::BTreeMap,
    panic::{catch_unwind, AssertUnwindSafe},
};

use deadpool::Runtime;
use deadpool_sync::{InteractError, SyncWrapper};
use serde::{Deserialize, Serialize};
use simcore::common::{Harness, Outcome as RunOutcome};
use simcore::rng::Rng;

use crate::engine::{
    self, begin_run, current_actor, current_step, drive, end_run, op_boundary, AState, Decision,
    DriveStats, InjectedPanic, Knobs, PollEnd, Resume, RunEnd, Sim, SimInfo, Violation, World,
    CONTROLLER,
};
use crate::trace;

#[derive(Clone, Copy, Debug, Serialize, Deserialize, PartialEq, Eq)]
pub enum SOp {
    /// SyncWrapper::new with a creation closure that succeeds / fails
    New {
        fail: bool,
        /// the destructor of the wrapped value panics (after it has done its work)
        #[serde(default)]
        dtor_panics: bool,
    },
    /// interact on the `w % wrappers`-th wrapper of this client
    Interact { w: u8, panic: bool, cancellable: bool },
    TryLock { w: u8 },
    /// `SyncWrapper::lock()` (only issued while no closure is using the value: it blocks)
    Lock { w: u8 },
    Poisoned { w: u8 },
    /// `unwinding`: the wrapper is dropped by a panic unwinding the client's stack
    DropWrapper {
        w: u8,
        #[serde(default)]
        unwinding: bool,
    },
    Nop,
}

#[derive(Clone, Debug, Serialize, Deserialize, PartialEq, Eq)]
pub struct SScenario {
    pub profile: String,
    pub clients: Vec<Vec<SOp>>,
    pub knobs: Knobs,
    pub sched_seed: u64,
}

/// The wrapped value: its destructor is logged with the actor that runs it.
pub struct Val {
    pub id: u32,
    pub dtor_panics: bool,
}

impl Drop for Val {
    fn drop(&mut self) {
        let id = self.id;
        engine::point("harness.dtor");
        try_with_s(|w| {
            let a = current_actor();
            trace!("  ~Val#{} on {}", id, name(w, a));
            engine::log_event(&[300, id as u64, a as u64]);
            w.seq += 1;
            let seq = w.seq;
            let v = &mut w.vals[id as usize];
            v.dtor_count += 1;
            v.dtor_actor = Some(a);
            v.dtor_seq = seq;
        });
        // (never a second panic on a thread that is already unwinding: that would abort)
        if self.dtor_panics && !std::thread::panicking() {
            try_with_s(|w| w.fault("destructor_panics"));
            std::panic::panic_any(InjectedPanic(id));
        }
    }
}

#[derive(Default, Clone, Debug)]
pub struct ValRec {
    pub dtor_count: u32,
    pub dtor_actor: Option<usize>,
    pub dtor_seq: u64,
    pub created_on: Option<usize>,
    pub poisoned_since: Option<u64>,
    pub wrapper_dropped: bool,
}

#[derive(Clone, Debug)]
pub struct Closure {
    pub val: u32,
    pub actor: usize,
    pub begin_seq: u64,
    pub end_seq: Option<u64>,
    pub panics: bool,
}

pub struct SWorld {
    pub sc: SScenario,
    pub n_clients: usize,
    pub vals: Vec<ValRec>,
    pub closures: Vec<Closure>,
    pub wrappers: Vec<Vec<(u32, SyncWrapper<Val>)>>,
    pub draining: bool,
    pub pending_violation: Option<Violation>,
    pub faults: BTreeMap<String, u64>,
    pub probes: BTreeMap<String, u64>,
    pub seq: u64,
    pub workers_started: usize,
    pub cur_cancellable: Vec<bool>,
    pub in_interact: Vec<Option<usize>>,
    pub ops: u64,
}

thread_local! {
    static SW: RefCell<Option<SWorld>> = const { RefCell::new(None) };
}

fn with_s<R>(f: impl FnOnce(&mut SWorld) -> R) -> R {
    engine::no_yield(|| SW.with(|c| f(c.borrow_mut().as_mut().expect("no sync world"))))
}

fn try_with_s(f: impl FnOnce(&mut SWorld)) {
    let _ = engine::no_yield(|| {
        SW.try_with(|c| {
            if let Ok(mut b) = c.try_borrow_mut() {
                if let Some(w) = b.as_mut() {
                    f(w)
                }
            }
        })
    });
}

fn name(w: &SWorld, a: usize) -> String {
    if a == CONTROLLER {
        "ctl".into()
    } else if a < w.n_clients {
        format!("client{a}")
    } else {
        format!("worker{}", a - w.n_clients)
    }
}

impl SWorld {
    fn probe(&mut self, k: &str) {
        *self.probes.entry(k.to_string()).or_insert(0) += 1;
    }
    fn fault(&mut self, k: &str) {
        *self.faults.entry(k.to_string()).or_insert(0) += 1;
    }
    fn violate(&mut self, clause: &str, d: String) {
        if self.pending_violation.is_none() {
            self.pending_violation = Some(engine::violation("C14", clause, d));
        }
    }
    fn is_worker(&self, a: usize) -> bool {
        a != CONTROLLER && a >= self.n_clients
    }
}

fn run_sop(actor: usize, op: SOp) {
    match op {
        SOp::New { fail, dtor_panics } => {
            let id = with_s(|w| {
                w.ops += 1;
                w.vals.push(ValRec::default());
                (w.vals.len() - 1) as u32
            });
            trace!("client{} SyncWrapper::new (val #{}, fail={})", actor, id, fail);
            let fut = SyncWrapper::new(Runtime::Tokio1, move || -> Result<Val, u32> {
                engine::point("harness.closure.begin");
                let a = current_actor();
                with_s(|w| {
                    w.vals[id as usize].created_on = Some(a);
                    if !w.is_worker(a) {
                        let n = name(w, a);
                        w.violate("creation_on_blocking_thread", format!("creation closure of value #{id} ran on {n}"));
                    }
                });
                engine::point("harness.closure.end");
                if fail {
                    Err(id)
                } else {
                    Ok(Val { id, dtor_panics })
                }
            });
            let mut st = DriveStats::default();
            match drive(fut, &mut st) {
                PollEnd::Ready(Ok(wr)) => with_s(|w| w.wrappers[actor].push((id, wr))),
                PollEnd::Ready(Err(e)) => with_s(|w| {
                    if !fail || e != id {
                        w.violate("creation_error_passed_through", format!("SyncWrapper::new returned Err({e}) for value #{id} (fail={fail})"));
                    }
                    w.fault("creation_error");
                }),
                PollEnd::Cancelled => with_s(|w| w.fault("creation_cancelled")),
                PollEnd::Panicked(_) => with_s(|w| {
                    let m = engine::take_last_panic().unwrap_or_default();
                    w.violate("unexpected_panic", format!("SyncWrapper::new panicked: {m}"));
                }),
            }
        }
        SOp::Interact { w: wi, panic, cancellable } => {
            // borrow the wrapper out of the world for the duration of the call
            let taken = with_s(|w| {
                let l = &mut w.wrappers[actor];
                if l.is_empty() {
                    None
                } else {
                    let i = wi as usize % l.len();
                    Some(l.remove(i))
                }
            });
            let Some((id, wr)) = taken else { return };
            with_s(|w| {
                w.ops += 1;
                w.cur_cancellable[actor] = cancellable;
            });
            trace!("client{} interact on val #{} (panic={})", actor, id, panic);
            let fut = wr.interact(move |v: &mut Val| -> u32 {
                let a = current_actor();
                let ci = with_s(|w| {
                    w.seq += 1;
                    let seq = w.seq;
                    if !w.is_worker(a) {
                        let n = name(w, a);
                        w.violate("interact_on_blocking_thread", format!("interact closure on value #{} ran on {n}", v.id));
                    }
                    if w.vals[v.id as usize].dtor_count > 0 {
                        w.violate("closure_after_destruction", format!("an interact closure was given value #{} after its destructor had run", v.id));
                    }
                    w.closures.push(Closure { val: v.id, actor: a, begin_seq: seq, end_seq: None, panics: panic });
                    engine::log_event(&[301, v.id as u64, a as u64]);
                    w.closures.len() - 1
                });
                engine::point("harness.closure.begin");
                engine::point("harness.closure.mid");
                if panic {
                    with_s(|w| {
                        w.seq += 1;
                        let s = w.seq;
                        w.closures[ci].end_seq = Some(s);
                        w.vals[v.id as usize].poisoned_since.get_or_insert(s);
                        w.fault("interact_panic");
                    });
                    std::panic::panic_any(InjectedPanic(v.id));
                }
                engine::point("harness.closure.end");
                with_s(|w| {
                    w.seq += 1;
                    let s = w.seq;
                    w.closures[ci].end_seq = Some(s);
                    if w.vals[v.id as usize].dtor_count > 0 {
                        w.violate("destructor_during_closure", format!("value #{} was destroyed while an interact closure was using it", v.id));
                    }
                });
                v.id
            });
            let mut st = DriveStats::default();
            let end = drive(fut, &mut st);
            with_s(|w| {
                w.cur_cancellable[actor] = false;
                match end {
                    PollEnd::Ready(Ok(got)) => {
                        if w.vals[id as usize].poisoned_since.is_some() && !panic {
                            // poisoned by an earlier (cancelled) closure that panicked later: fine
                        }
                        if panic || got != id {
                            w.violate("interact_result", format!("interact on value #{id} (panic={panic}) returned Ok({got})"));
                        }
                    }
                    PollEnd::Ready(Err(InteractError::Panic(p))) => {
                        let ok = p.downcast_ref::<InjectedPanic>().map(|i| i.0 == id).unwrap_or(false);
                        // on a wrapper whose mutex is already poisoned every later interact
                        // fails with the poison error as its panic payload
                        let poisoned_before = w.vals[id as usize].poisoned_since.is_some() && !ok;
                        if poisoned_before {
                            w.probe("interact_on_poisoned_wrapper");
                        } else if !panic || !ok {
                            w.violate("panic_reported_with_payload", format!("interact on value #{id} (panic={panic}) returned InteractError::Panic with {} payload", if ok { "the injected" } else { "a foreign" }));
                        }
                        w.probe("interact_panic_reported");
                    }
                    PollEnd::Ready(Err(InteractError::Aborted)) => {
                        w.violate("aborted_never_observed", format!("interact on live wrapper of value #{id} returned Aborted"));
                    }
                    PollEnd::Cancelled => {
                        // classify by how far the closure got
                        let state = w.closures.iter().rev().find(|c| c.val == id);
                        let k = match state {
                            Some(c) if c.end_seq.is_none() => "interact_cancelled_while_running",
                            Some(_) => "interact_cancelled_after_finish_or_before_start",
                            None => "interact_cancelled_before_start",
                        };
                        w.fault(k);
                    }
                    PollEnd::Panicked(_) => {
                        let m = engine::take_last_panic().unwrap_or_default();
                        w.violate("unexpected_panic", format!("interact future panicked on the caller: {m}"));
                    }
                }
                w.wrappers[actor].push((id, wr));
            });
        }
        SOp::TryLock { w: wi } | SOp::Poisoned { w: wi } => {
            with_s(|w| {
                w.ops += 1;
                let l = &w.wrappers[actor];
                if l.is_empty() {
                    return;
                }
                let (id, wr) = &l[wi as usize % l.len()];
                let id = *id;
                let pois = wr.is_mutex_poisoned();
                let expect = w.vals[id as usize].poisoned_since.is_some();
                // a closure that is about to panic may not have poisoned the mutex yet
                let running_panic = w.closures.iter().any(|c| c.val == id && c.panics && c.end_seq.is_some());
                let _ = running_panic;
                let running = w.closures.iter().any(|c| c.val == id && c.end_seq.is_none());
                if expect && !pois && !running {
                    w.pending_violation.get_or_insert(engine::violation("C14", "poisoned_after_panic", format!("a closure panicked on value #{id} but is_mutex_poisoned() is false")));
                }
                if pois && !expect {
                    w.pending_violation.get_or_insert(engine::violation("C14", "poisoned_only_after_panic", format!("wrapper of value #{id} reports a poisoned mutex although no closure panicked")));
                }
                if matches!(op, SOp::TryLock { .. }) {
                    match wr.try_lock() {
                        Ok(g) => {
                            if g.id != id {
                                w.pending_violation.get_or_insert(engine::violation("C14", "lock_gives_value", format!("try_lock on wrapper of #{id} gave #{}", g.id)));
                            }
                        }
                        Err(_) => {}
                    }
                }
            });
        }
        SOp::Lock { w: wi } => {
            with_s(|w| {
                w.ops += 1;
                let l = &w.wrappers[actor];
                if l.is_empty() {
                    return;
                }
                let (id, wr) = &l[wi as usize % l.len()];
                let id = *id;
                if w.closures.iter().any(|c| c.val == id && c.end_seq.is_none()) {
                    return;
                }
                let expect = w.vals[id as usize].poisoned_since.is_some();
                let got = match wr.lock() {
                    Ok(g) => (false, g.id),
                    Err(e) => (true, e.into_inner().as_ref().map(|v| v.id).unwrap_or(u32::MAX)),
                };
                if got.1 != id {
                    w.pending_violation.get_or_insert(engine::violation("C14", "lock_gives_value", format!("lock on wrapper of #{id} gave #{}", got.1)));
                }
                if got.0 != expect {
                    w.pending_violation.get_or_insert(engine::violation(
                        "C14",
                        if expect { "poisoned_after_panic" } else { "poisoned_only_after_panic" },
                        format!("lock() on the wrapper of value #{id} reported poisoned = {}, a closure has panicked on it: {}", got.0, expect),
                    ));
                }
                // looking at the value does not heal it
                if expect && !wr.is_mutex_poisoned() {
                    w.pending_violation.get_or_insert(engine::violation(
                        "C14",
                        "poisoned_after_panic",
                        format!("a closure panicked on value #{id} but is_mutex_poisoned() is false after a lock() call"),
                    ));
                }
                w.probe("lock_called");
            });
        }
        SOp::DropWrapper { w: wi, unwinding } => {
            let taken = with_s(|w| {
                w.ops += 1;
                let l = &mut w.wrappers[actor];
                if l.is_empty() {
                    None
                } else {
                    let i = wi as usize % l.len();
                    Some(l.remove(i))
                }
            });
            let Some((id, wr)) = taken else { return };
            trace!("client{} drops wrapper of val #{}", actor, id);
            with_s(|w| w.vals[id as usize].wrapper_dropped = true);
            if unwinding {
                // the owner of the wrapper panics: the wrapper is dropped while the stack unwinds
                with_s(|w| w.fault("wrapper_dropped_by_unwinding"));
                let r = catch_unwind(AssertUnwindSafe(move || {
                    let _owned = wr;
                    std::panic::panic_any(InjectedPanic(id));
                }));
                let injected = matches!(&r, Err(p) if p.downcast_ref::<InjectedPanic>().is_some());
                if !injected {
                    with_s(|w| {
                        let m = engine::take_last_panic().unwrap_or_default();
                        w.violate("unexpected_panic", format!("dropping the wrapper of value #{id} during unwinding panicked: {m}"));
                    });
                }
            } else if catch_unwind(AssertUnwindSafe(move || drop(wr))).is_err() {
                with_s(|w| {
                    let m = engine::take_last_panic().unwrap_or_default();
                    w.violate("unexpected_panic", format!("dropping the wrapper of value #{id} panicked: {m}"));
                });
            }
            with_s(|w| {
                if w.vals[id as usize].dtor_count > 0 && w.vals[id as usize].dtor_actor == Some(actor) {
                    w.violate("destructor_on_blocking_thread", format!("value #{id} was destroyed on client{actor}, the thread that dropped the wrapper"));
                }
            });
        }
        SOp::Nop => {}
    }
}

/// poisoned flag must be reported from the panic on, at every later observation
fn check_poison(w: &mut SWorld) {
    let mut bad = None;
    for l in w.wrappers.iter() {
        for (id, wr) in l.iter() {
            let expect = w.vals[*id as usize].poisoned_since.is_some();
            // only judge when no closure on this value is mid-flight
            let running = w.closures.iter().any(|c| c.val == *id && c.end_seq.is_none());
            if expect && !running && !wr.is_mutex_poisoned() {
                bad = Some(*id);
            }
        }
    }
    if let Some(id) = bad {
        w.violate("poisoned_after_panic", format!("a closure panicked on value #{id} but is_mutex_poisoned() is false"));
    }
}

pub struct SHandle;

impl World for SHandle {
    fn actors(&self) -> usize {
        with_s(|w| w.n_clients)
    }
    fn actor_body(&mut self, i: usize) -> Box<dyn FnOnce()> {
        let ops = with_s(|w| w.sc.clients[i].clone());
        Box::new(move || {
            for op in ops {
                op_boundary();
                if with_s(|w| w.draining) {
                    break;
                }
                run_sop(i, op);
            }
        })
    }
    fn openable_gates(&mut self, _out: &mut Vec<u32>) {}
    fn open_gate(&mut self, _g: u32) {}
    fn cancellable(&mut self, actor: usize) -> bool {
        with_s(|w| w.draining || w.cur_cancellable.get(actor).copied().unwrap_or(false))
    }
    fn after_step(&mut self, info: &SimInfo) -> Option<Violation> {
        with_s(|w| {
            if let (Decision::Run(a), Some(engine::Yield::LockBusy(site))) = (info.last, info.last_yield) {
                // a client (async) thread had to wait for the wrapper's mutex: blocking work on
                // the thread that awaited or dropped the wrapper
                if a < w.n_clients {
                    let n = name(w, a);
                    w.violate("blocking_on_async_thread", format!("{n} blocked on the wrapper mutex at {site} while a closure was using the value"));
                }
            }
            w.pending_violation.take()
        })
    }
    fn quiescent(&mut self, _info: &SimInfo) -> Option<Violation> {
        with_s(|w| {
            check_poison(w);
            w.pending_violation.take()
        })
    }
    fn spawn_pending(&mut self) -> Vec<Box<dyn FnOnce()>> {
        let jobs = engine::take_spawned_jobs();
        let mut out: Vec<Box<dyn FnOnce()>> = Vec::new();
        for job in jobs {
            with_s(|w| w.workers_started += 1);
            out.push(Box::new(move || {
                op_boundary();
                job();
            }));
        }
        out
    }
}

pub fn run_sscenario(sc: &SScenario, replay: Option<Vec<Decision>>, trace: bool) -> RunOutcome {
    begin_run(&sc.knobs, sc.clients.len(), trace, 256 * 1024);
    engine::set_blocking_seam(true);
    let mut sim = Sim::new(sc.sched_seed, sc.knobs.clone(), replay);
    let handle = sim.clock.handle();
    let guard = handle.enter();
    let n = sc.clients.len();
    SW.with(|c| {
        *c.borrow_mut() = Some(SWorld {
            sc: sc.clone(),
            n_clients: n,
            vals: Vec::new(),
            closures: Vec::new(),
            wrappers: (0..n).map(|_| Vec::new()).collect(),
            draining: false,
            pending_violation: None,
            faults: BTreeMap::new(),
            probes: BTreeMap::new(),
            seq: 0,
            workers_started: 0,
            cur_cancellable: vec![false; n],
            in_interact: vec![None; n],
            ops: 0,
        })
    });
    let mut h = SHandle;
    for i in 0..n {
        let b = h.actor_body(i);
        let _ = sim.add_actor(b);
    }
    let mut violation = None;
    let mut diverged = None;
    let mut step_cap_hit = false;
    let end = sim.run(&mut h);
    let main_len = sim.decisions.len();
    match end {
        RunEnd::Finished => {}
        RunEnd::Violation(v) => violation = Some(v),
        RunEnd::StepCap => step_cap_hit = true,
        RunEnd::Diverged(e) => diverged = Some(e),
        RunEnd::Deadlock(d) => {
            violation = Some(engine::violation("C14", "deadlock", format!("no thread can move: {d} wait for a lock that is never released")))
        }
    }
    // epilogue: cancel whatever is pending, drop every wrapper, run every worker to completion
    with_s(|w| w.draining = true);
    let mut drained = false;
    for _ in 0..64 {
        let _ = sim.settle(&mut h, 20_000);
        let pending = sim.pending_actors();
        if pending.is_empty() {
            drained = true;
            break;
        }
        for a in pending {
            let _ = sim.resume(a, Resume::Cancel);
        }
    }
    let leftovers: Vec<(u32, SyncWrapper<Val>)> = with_s(|w| {
        let mut v = Vec::new();
        for l in w.wrappers.iter_mut() {
            v.append(l);
        }
        v
    });
    for (id, wr) in leftovers {
        with_s(|w| w.vals[id as usize].wrapper_dropped = true);
        let _ = catch_unwind(AssertUnwindSafe(move || drop(wr)));
    }
    // the drop jobs are workers too
    for _ in 0..8 {
        let _ = sim.settle(&mut h, 20_000);
    }
    if violation.is_none() && diverged.is_none() {
        violation = with_s(|w| w.pending_violation.take());
        if violation.is_none() && (!drained || step_cap_hit) {
            violation = Some(engine::violation("C14", "no_progress", "operations / workers could not be completed".into()));
        }
        if violation.is_none() {
            violation = with_s(final_checks);
        }
    }
    let w = SW.with(|c| c.borrow_mut().take()).unwrap();
    let stats = sim.stats.clone();
    let mut decisions = sim.decisions.clone();
    decisions.truncate(main_len);
    let mut faults = w.faults.clone();
    for (k, v) in [("controller_cancelled_future", stats.cancels), ("spurious_poll", stats.spurious), ("lock_contention_yield", stats.lock_busy)] {
        if v > 0 {
            *faults.entry(k.to_string()).or_insert(0) += v;
        }
    }
    let mut probes = w.probes.clone();
    *probes.entry("worker_jobs".into()).or_insert(0) += w.workers_started as u64;
    let nontrivial = stats.switches > 0 && (w.closures.len() > 0) && (faults.values().sum::<u64>() > 0 || w.n_clients > 1 || w.vals.iter().any(|v| v.wrapper_dropped));
    let ops = w.ops;
    drop(w);
    sim.abandon_unfinished();
    drop(guard);
    let virtual_ms = sim.clock.advanced_total_ms;
    drop(sim);
    engine::set_blocking_seam(false);
    let (log_hash, trace) = end_run();
    RunOutcome {
        violation,
        diverged,
        decisions,
        log_hash,
        trace,
        steps: stats.steps,
        switches: stats.switches,
        virtual_ms,
        ops,
        nontrivial,
        ileave: stats.interleaving_hash,
        faults,
        probes,
        states: Vec::new(),
        step_cap_hit,
        switch_pairs: stats.switch_pairs.iter().copied().collect(),
    }
}

fn final_checks(w: &mut SWorld) -> Option<Violation> {
    for (_id, v) in w.vals.iter().enumerate() {
        if v.created_on.is_none() {
            continue; // creation cancelled before the closure ran / failed
        }
        let created_ok = v.created_on.is_some();
        let _ = created_ok;
    }
    // every value that was created successfully is destroyed exactly once, on a worker,
    // outside every closure interval and after every closure that saw it
    let vals = w.vals.clone();
    for (id, v) in vals.iter().enumerate() {
        let existed = w.closures.iter().any(|c| c.val == id as u32) || v.dtor_count > 0 || v.wrapper_dropped;
        if !existed {
            continue;
        }
        if v.dtor_count != 1 {
            return Some(engine::violation("C14", "destructor_exactly_once", format!("value #{id}: destructor ran {} times (wrapper dropped: {})", v.dtor_count, v.wrapper_dropped)));
        }
        let a = v.dtor_actor.unwrap_or(CONTROLLER);
        if !w.is_worker(a) {
            return Some(engine::violation("C14", "destructor_on_blocking_thread", format!("value #{id} was destroyed on {}", name(w, a))));
        }
        for c in w.closures.iter().filter(|c| c.val == id as u32) {
            let end = c.end_seq.unwrap_or(u64::MAX);
            if c.begin_seq < v.dtor_seq && v.dtor_seq < end {
                return Some(engine::violation("C14", "destructor_during_closure", format!("value #{id} was destroyed while a closure (on {}) was using it", name(w, c.actor))));
            }
            if c.begin_seq > v.dtor_seq {
                return Some(engine::violation("C14", "closure_after_destruction", format!("a closure used value #{id} after its destructor had run")));
            }
        }
        w.probe("destructor_checked");
    }
    None
}

// ---------------------------------------------------------------------------

pub fn gen_sync(rng: &mut Rng, thorough: bool) -> SScenario {
    let n_clients = rng.range(1, 3);
    let mut clients = Vec::new();
    for _ in 0..n_clients {
        let n_ops = rng.range(2, if thorough { 10 } else { 7 });
        let mut ops = vec![SOp::New { fail: rng.below(100) < 10, dtor_panics: rng.below(100) < 10 }];
        for _ in 1..n_ops {
            let op = match rng.weighted(&[12, 45, 6, 8, 18]) {
                0 => SOp::New { fail: rng.below(100) < 15, dtor_panics: rng.below(100) < 12 },
                1 => SOp::Interact { w: rng.below(3) as u8, panic: rng.below(100) < 20, cancellable: rng.below(100) < 45 },
                2 => {
                    if rng.coin() {
                        SOp::TryLock { w: rng.below(3) as u8 }
                    } else {
                        SOp::Lock { w: rng.below(3) as u8 }
                    }
                }
                3 => SOp::Poisoned { w: rng.below(3) as u8 },
                _ => SOp::DropWrapper { w: rng.below(3) as u8, unwinding: rng.below(100) < 25 },
            };
            ops.push(op);
        }
        clients.push(ops);
    }
    let mut knobs = crate::mgen::gen_knobs(rng, true, false);
    // the sync layer has its own sites: harness closure points (and none of the pool's)
    knobs.sites.retain(|s| !s.starts_with("unmanaged.") && !s.starts_with("sync."));
    for s in ["harness.closure.begin", "harness.closure.mid", "harness.closure.end", "harness.dtor", "sync.arc.post_count", "sync.arc.post_clone", "sync.arc.pre_drop"] {
        if rng.below(100) < 70 {
            knobs.sites.push(s.to_string());
        }
    }
    knobs.p_cancel = *rng.pick(&[0u32, 100, 300, 600]);
    knobs.p_time = 0;
    SScenario {
        profile: "C14".into(),
        clients,
        knobs,
        sched_seed: rng.next(),
    }
}

pub struct SyncW;

impl Harness for SyncW {
    type Sc = SScenario;
    fn name(&self) -> &'static str {
        "dsim-sync"
    }
    fn generate(&self, rng: &mut Rng, _profile: &str, thorough: bool) -> SScenario {
        gen_sync(rng, thorough)
    }
    fn run(&self, sc: &SScenario, replay: Option<Vec<Decision>>, trace: bool) -> RunOutcome {
        run_sscenario(sc, replay, trace)
    }
    fn set_sched_seed(&self, sc: &mut SScenario, seed: u64) {
        sc.sched_seed = seed;
    }
    fn shrink_candidates(&self, sc: &SScenario) -> Vec<SScenario> {
        let mut out = Vec::new();
        if sc.clients.len() > 1 {
            for i in 0..sc.clients.len() {
                let mut c = sc.clone();
                let _ = c.clients.remove(i);
                out.push(c);
            }
        }
        for i in 0..sc.clients.len() {
            for k in (0..sc.clients[i].len()).rev() {
                let mut c = sc.clone();
                let _ = c.clients[i].remove(k);
                if c.clients[i].is_empty() && c.clients.len() > 1 {
                    let _ = c.clients.remove(i);
                }
                out.push(c);
            }
        }
        for i in 0..sc.clients.len() {
            for k in 0..sc.clients[i].len() {
                if let SOp::New { fail, dtor_panics: true } = sc.clients[i][k] {
                    let mut c = sc.clone();
                    c.clients[i][k] = SOp::New { fail, dtor_panics: false };
                    out.push(c);
                }
                if let SOp::DropWrapper { w, unwinding: true } = sc.clients[i][k] {
                    let mut c = sc.clone();
                    c.clients[i][k] = SOp::DropWrapper { w, unwinding: false };
                    out.push(c);
                }
                if let SOp::Interact { w, panic, cancellable } = sc.clients[i][k] {
                    if cancellable {
                        let mut c = sc.clone();
                        c.clients[i][k] = SOp::Interact { w, panic, cancellable: false };
                        out.push(c);
                    }
                    if panic {
                        let mut c = sc.clone();
                        c.clients[i][k] = SOp::Interact { w, panic: false, cancellable };
                        out.push(c);
                    }
                }
            }
        }
        if !sc.knobs.sites.is_empty() {
            let mut c = sc.clone();
            c.knobs.sites.clear();
            out.push(c);
            for i in 0..sc.knobs.sites.len() {
                let mut c = sc.clone();
                let _ = c.knobs.sites.remove(i);
                out.push(c);
            }
        }
        if sc.knobs.p_cancel > 0 {
            let mut c = sc.clone();
            c.knobs.p_cancel = 0;
            out.push(c);
        }
        if sc.knobs.strategy != 1 || sc.knobs.stick != 950 {
            let mut c = sc.clone();
            c.knobs.strategy = 1;
            c.knobs.stick = 950;
            out.push(c);
        }
        out
    }
    fn shape(&self, sc: &SScenario) -> String {
        let mut s = String::new();
        for (i, c) in sc.clients.iter().enumerate() {
            let names: Vec<String> = c
                .iter()
                .map(|o| match o {
                    SOp::New { fail, dtor_panics } => format!("New{}{}", if *fail { "(fail)" } else { "" }, if *dtor_panics { "!dtor_panics" } else { "" }),
                    SOp::Interact { panic, cancellable, .. } => format!("Interact{}{}", if *panic { "!panic" } else { "" }, if *cancellable { "+canc" } else { "" }),
                    SOp::TryLock { .. } => "TryLock".into(),
                    SOp::Lock { .. } => "Lock".into(),
                    SOp::Poisoned { .. } => "Poisoned".into(),
                    SOp::DropWrapper { unwinding, .. } => format!("Drop{}", if *unwinding { "!unwinding" } else { "" }),
                    SOp::Nop => "Nop".into(),
                })
                .collect();
            s.push_str(&format!(" client{}:[{}]", i, names.join(",")));
        }
        s.push_str(&format!(" | sites=[{}]", sc.knobs.sites.join(",")));
        let _ = AState::Done;
        let _ = current_step();
        s
    }
}
