//! Unmanaged-pool world (C05, C12 and the unmanaged half of C10): identity-tagged
//! objects with logged destruction, a location ledger, actor scripts, oracles.

use std::{
    cell::RefCell,
    collections::BTreeMap,
    panic::{catch_unwind, AssertUnwindSafe},
    time::Duration,
};

use deadpool::unmanaged::{Object, Pool, PoolConfig, PoolError};
use deadpool::Runtime;
use serde::{Deserialize, Serialize};
use simcore::common::{Harness, Outcome as RunOutcome};
use simcore::rng::Rng;

use crate::engine::{
    self, begin_run, current_actor, current_step, drive, end_run, now_ms, op_boundary,
    register_deadline, AState, Decision, DriveStats, InjectedPanic, Knobs, PollEnd, Resume, RunEnd, Sim, SimInfo,
    Violation, World, CONTROLLER,
};
use crate::trace;

// ---------------------------------------------------------------------------
// scenario
// ---------------------------------------------------------------------------

#[derive(Clone, Copy, Debug, Serialize, Deserialize, PartialEq, Eq)]
pub enum Ctor {
    New { max_size: usize },
    FromConfig { max_size: usize, timeout: Option<u64>, runtime: bool },
    /// `Pool::from(vec![..n objects..])`
    /// `spare`: the vector handed to `Pool::from` has room for that many more elements
    FromVec {
        n: usize,
        #[serde(default)]
        spare: usize,
    },
}

#[derive(Clone, Copy, Debug, Serialize, Deserialize, PartialEq, Eq)]
pub enum UOp {
    Get { cancellable: bool },
    TryGet,
    TimeoutGet { t: Option<u64>, cancellable: bool },
    /// add a fresh object (or a raw one the actor owns, if `reuse` and it has one)
    Add { reuse: bool, cancellable: bool },
    TryAdd { reuse: bool },
    Remove { cancellable: bool },
    TryRemove,
    TimeoutRemove { t: Option<u64>, cancellable: bool },
    /// `unwinding`: the holder panics; the object is dropped while the stack unwinds
    Return {
        slot: u8,
        #[serde(default)]
        unwinding: bool,
    },
    Take { slot: u8 },
    /// create, use and close an unrelated second pool
    Sibling { kind: u8 },
    Status,
    Close,
    Nop,
}

#[derive(Clone, Debug, Serialize, Deserialize, PartialEq, Eq)]
pub struct UScenario {
    pub profile: String,
    pub ctor: Ctor,
    pub actors: Vec<Vec<UOp>>,
    pub knobs: Knobs,
    pub sched_seed: u64,
}

impl UScenario {
    pub fn max_size(&self) -> usize {
        match self.ctor {
            Ctor::New { max_size } | Ctor::FromConfig { max_size, .. } => max_size,
            Ctor::FromVec { n, .. } => n,
        }
    }
    pub fn cfg_timeout(&self) -> Option<u64> {
        match self.ctor {
            Ctor::FromConfig { timeout, .. } => timeout,
            _ => None,
        }
    }
    pub fn has_runtime(&self) -> bool {
        matches!(self.ctor, Ctor::FromConfig { runtime: true, .. })
    }
}

// ---------------------------------------------------------------------------
// objects and ledger
// ---------------------------------------------------------------------------

#[derive(Debug)]
pub struct UObj {
    pub id: u32,
}

impl Drop for UObj {
    fn drop(&mut self) {
        let id = self.id;
        try_with_u(|w| w.on_destroy(id));
        // a destructor takes time (it may run inside the pool's clear(), under its lock)
        engine::point("harness.udtor");
    }
}

/// Item of a second, unrelated pool that some runs create, use and close next to the pool under
/// test: two pools of one process share nothing, so nothing that happens to the sibling may show
/// in the pool under test. Its destructor is a schedule point (it runs inside the sibling's
/// `close()`).
pub struct SibObj;

impl Drop for SibObj {
    fn drop(&mut self) {
        engine::point("harness.dtor");
    }
}

type UPool = Pool<UObj>;
type UObject = Object<UObj>;

#[derive(Clone, Copy, Debug, PartialEq, Eq)]
pub enum Loc {
    /// owned by a caller as a plain value (never added, removed, taken, refused)
    Raw(usize),
    /// handed to add()/try_add(), outcome pending
    Adding(usize),
    /// belongs to the pool and is not in a caller's hands (queue or in transit)
    Pool,
    /// checked out by an actor
    Held(usize),
    /// a caller is giving it back (drop in progress)
    Returning(usize),
    /// a caller is taking it for good (take in progress)
    Taking(usize),
}

#[derive(Clone, Debug)]
pub struct URec {
    pub loc: Loc,
    pub destroyed: Option<u64>,
    pub destroyed_by: usize,
    pub destroyed_in_op: Option<usize>,
    pub destroyed_by_harness: bool,
}

#[derive(Clone, Debug, PartialEq, Eq)]
pub enum URes {
    GotObj(u32),
    GotRaw(u32),
    Added,
    Refused(u32, UErr),
    Err(UErr),
    Cancelled,
    Panicked(String),
    Unit,
    Status(crate::mworld::StatusV),
}

#[derive(Clone, Copy, Debug, PartialEq, Eq)]
pub enum UErr {
    Timeout,
    Closed,
    NoRuntime,
}

fn uerr(e: &PoolError) -> UErr {
    match e {
        PoolError::Timeout => UErr::Timeout,
        PoolError::Closed => UErr::Closed,
        PoolError::NoRuntimeSpecified => UErr::NoRuntime,
    }
}

#[derive(Clone, Debug)]
pub struct UOpRec {
    pub actor: usize,
    pub op: UOp,
    pub invoke_step: u64,
    pub invoke_ms: u64,
    pub return_step: Option<u64>,
    pub return_ms: Option<u64>,
    pub res: Option<URes>,
    pub target: Option<u32>,
    pub pend_base: u32,
    pub pendings: u32,
    pub wait_start_ms: Option<u64>,
    pub snap0: Option<(deadpool::unmanaged::VerifSnapshot, Vec<u32>)>,
    pub closed_before: bool,
}

pub struct UWorld {
    pub sc: UScenario,
    pub pool: Option<UPool>,
    pub objs: Vec<URec>,
    pub ops: Vec<UOpRec>,
    pub cur_op: Vec<Option<usize>>,
    pub held: Vec<Vec<UObject>>,
    pub raw: Vec<Vec<UObj>>,
    pub draining: bool,
    pub pending_violation: Option<Violation>,
    pub faults: BTreeMap<String, u64>,
    pub probes: BTreeMap<String, u64>,
    pub closed_step: Option<u64>,
    pub close_invoked: bool,
    pub closer: Option<usize>,
    pub must_close: Vec<usize>,
    pub parked: std::collections::BTreeSet<usize>,
    pub last_run_step: BTreeMap<usize, u64>,
    pub states: std::collections::BTreeSet<u64>,
    pub quiescent_points: u64,
    pub rest_points: u64,
    /// actor whose pending future is being dropped by the controller right now
    pub cancelling: Option<usize>,
    pub site_log_pos: usize,
    /// try_add calls in flight -> the most slots that were (or may have been) in use at any
    /// instant of the call so far
    pub tryadd_peak: BTreeMap<usize, usize>,
}

thread_local! {
    static UW: RefCell<Option<UWorld>> = const { RefCell::new(None) };
}

pub fn with_u<R>(f: impl FnOnce(&mut UWorld) -> R) -> R {
    engine::no_yield(|| UW.with(|c| f(c.borrow_mut().as_mut().expect("no unmanaged world"))))
}

pub fn try_with_u(f: impl FnOnce(&mut UWorld)) {
    let _ = engine::no_yield(|| {
        UW.try_with(|c| {
            if let Ok(mut b) = c.try_borrow_mut() {
                if let Some(w) = b.as_mut() {
                    f(w)
                }
            }
        })
    });
}

fn an(a: usize) -> String {
    crate::mworld::actor_name(a)
}

impl UWorld {
    fn probe(&mut self, k: &str) {
        *self.probes.entry(k.to_string()).or_insert(0) += 1;
    }
    fn fault(&mut self, k: &str) {
        *self.faults.entry(k.to_string()).or_insert(0) += 1;
    }
    fn violate(&mut self, p: &str, clause: &str, d: String) {
        if self.pending_violation.is_none() {
            self.pending_violation = Some(engine::violation(p, clause, d));
        }
    }
    fn new_obj(&mut self, actor: usize) -> UObj {
        let id = self.objs.len() as u32;
        self.objs.push(URec {
            loc: Loc::Raw(actor),
            destroyed: None,
            destroyed_by: CONTROLLER,
            destroyed_in_op: None,
            destroyed_by_harness: false,
        });
        engine::log_event(&[200, id as u64]);
        UObj { id }
    }
    fn on_destroy(&mut self, id: u32) {
        let actor = current_actor();
        let op = if actor == CONTROLLER { None } else { self.cur_op.get(actor).copied().flatten() };
        engine::log_event(&[201, id as u64]);
        trace!("  ~UObj#{} destroyed (actor {}, op {:?})", id, an(actor), op);
        let closed = self.close_invoked;
        let r = &mut self.objs[id as usize];
        r.destroyed = Some(current_step());
        r.destroyed_by = actor;
        r.destroyed_in_op = op;
        let loc = r.loc;
        // an add() future dropped while waiting drops its argument: the caller let go of it
        let cancelled_add = matches!(loc, Loc::Adding(a) if self.cancelling == Some(a));
        if !r.destroyed_by_harness && !closed && !self.draining && !cancelled_add {
            // the pool dropped an object it owns while it is open
            let p = self.sc.profile.clone();
            let p = if p == "C12" { "C12" } else { "C05" };
            self.violate(p, "object_dropped_while_open", format!("object #{id} ({:?}) was destroyed although the pool is open and no caller let go of it", loc));
        }
    }
    fn op_invoke(&mut self, actor: usize, op: UOp) -> usize {
        let closed_before = self.closed_step.is_some();
        self.ops.push(UOpRec {
            actor,
            op,
            invoke_step: current_step(),
            invoke_ms: now_ms(),
            return_step: None,
            return_ms: None,
            res: None,
            target: None,
            pend_base: if actor == CONTROLLER { 0 } else { engine::pending_count(actor) },
            pendings: 0,
            wait_start_ms: None,
            snap0: None,
            closed_before,
        });
        let i = self.ops.len() - 1;
        if actor != CONTROLLER {
            self.cur_op[actor] = Some(i);
        }
        if matches!(op, UOp::TryAdd { .. }) {
            let n = self.slots_upper(actor);
            let _ = self.tryadd_peak.insert(i, n);
        }
        engine::log_event(&[210, actor as u64]);
        trace!("{} invokes op#{} {:?}", an(actor), i, op);
        if let Some(sn) = usnapshot(self) {
            self.ops[i].snap0 = Some(sn);
        }
        i
    }
    fn op_return(&mut self, opi: usize, res: URes) {
        let actor = self.ops[opi].actor;
        trace!("{} op#{} returns {:?}", an(actor), opi, res);
        engine::log_str(&format!("{:?}", res));
        self.ops[opi].return_step = Some(current_step());
        self.ops[opi].return_ms = Some(now_ms());
        if actor != CONTROLLER {
            self.ops[opi].pendings = engine::pending_count(actor) - self.ops[opi].pend_base;
            self.cur_op[actor] = None;
            if self.cancelling == Some(actor) {
                self.cancelling = None;
            }
        }
        if let URes::Panicked(msg) = &res {
            let p = if msg.contains(" at dsim/src/") || msg.contains(" at simcore/") { "HARNESS".to_string() } else { self.sc.profile.clone() };
            let d = format!("{:?} panicked: {}", self.ops[opi].op, msg);
            self.violate(&p, "unexpected_panic", d);
        }
        self.ops[opi].res = Some(res);
        let v = oracle_on_return(self, opi);
        if let Some(v) = v {
            if self.pending_violation.is_none() && !self.draining {
                self.pending_violation = Some(v);
            }
        }
    }
    /// Upper bound of the slots in use right now, not counting what `actor` itself is adding:
    /// every object that is in the pool, checked out, on its way back, being taken (its slot is
    /// freed somewhere inside that call) or being added by somebody else.
    fn slots_upper(&self, actor: usize) -> usize {
        self.objs
            .iter()
            .filter(|o| o.destroyed.is_none())
            .filter(|o| match o.loc {
                Loc::Pool | Loc::Held(_) | Loc::Returning(_) | Loc::Taking(_) => true,
                Loc::Adding(a) => a != actor,
                Loc::Raw(_) => false,
            })
            .count()
    }
    /// objects that belong to the pool (added and not handed back for good)
    fn n_owned(&self) -> usize {
        self.objs
            .iter()
            .filter(|o| o.destroyed.is_none() && matches!(o.loc, Loc::Pool | Loc::Held(_) | Loc::Returning(_)))
            .count()
    }
    fn n_held(&self) -> usize {
        self.objs
            .iter()
            .filter(|o| o.destroyed.is_none() && matches!(o.loc, Loc::Held(_)))
            .count()
    }
}

pub fn usnapshot(w: &UWorld) -> Option<(deadpool::unmanaged::VerifSnapshot, Vec<u32>)> {
    let pool = w.pool.as_ref()?;
    let mut ids = Vec::new();
    let s = pool.verif_snapshot(&mut |o: &UObj| ids.push(o.id))?;
    Some((s, ids))
}

// ---------------------------------------------------------------------------
// actor ops
// ---------------------------------------------------------------------------

fn panic_msg(p: Box<dyn std::any::Any + Send>) -> String {
    let _ = p;
    engine::take_last_panic().unwrap_or_else(|| "<unknown>".into())
}

fn ms(v: Option<u64>) -> Option<Duration> {
    // u64::MAX stands for "practically no timeout": the largest Duration there is
    v.map(|v| if v == u64::MAX { Duration::MAX } else { Duration::from_millis(v) })
}

/// get-like operations: returns the Object if one was obtained
fn do_get(actor: usize, op: UOp, pool: &UPool) -> Option<UObject> {
    let opi = with_u(|w| {
        let opi = w.op_invoke(actor, op);
        // deadline candidates
        let t = match op {
            UOp::Get { .. } | UOp::Remove { .. } => w.sc.cfg_timeout(),
            UOp::TimeoutGet { t, .. } | UOp::TimeoutRemove { t, .. } => t,
            _ => None,
        };
        if let Some(t) = t {
            if t > 0 {
                register_deadline(t);
            }
        }
        opi
    });
    let mut stats = DriveStats::default();
    if matches!(op, UOp::Remove { .. } | UOp::TryRemove | UOp::TimeoutRemove { .. }) {
        // the pool's own remove family (get + take inside one call)
        let end: PollEnd<Result<UObj, PoolError>> = match op {
            UOp::Remove { .. } => drive(pool.remove(), &mut stats),
            UOp::TimeoutRemove { t, .. } => drive(pool.timeout_remove(ms(t)), &mut stats),
            _ => match catch_unwind(AssertUnwindSafe(|| pool.try_remove())) {
                Ok(r) => PollEnd::Ready(r),
                Err(p) => PollEnd::Panicked(p),
            },
        };
        match end {
            PollEnd::Ready(Ok(raw)) => {
                let id = raw.id;
                with_u(|w| {
                    w.ops[opi].target = Some(id);
                    let prev = w.objs[id as usize].loc;
                    if !matches!(prev, Loc::Pool | Loc::Adding(_) | Loc::Returning(_)) || w.objs[id as usize].destroyed.is_some() {
                        let p = w.sc.profile.clone();
                        w.violate(&p, "exclusive_handout", format!("object #{id} removed while it is {:?}", prev));
                    }
                    w.objs[id as usize].loc = Loc::Raw(actor);
                    w.raw[actor].push(raw);
                    w.op_return(opi, URes::GotRaw(id));
                });
            }
            PollEnd::Ready(Err(e)) => with_u(|w| w.op_return(opi, URes::Err(uerr(&e)))),
            PollEnd::Cancelled => with_u(|w| {
                w.fault("waiting_call_cancelled");
                w.op_return(opi, URes::Cancelled)
            }),
            PollEnd::Panicked(p) => {
                let m = panic_msg(p);
                with_u(|w| w.op_return(opi, URes::Panicked(m)));
            }
        }
        return None;
    }
    let end: PollEnd<Result<UObject, PoolError>> = match op {
        UOp::Get { .. } | UOp::Remove { .. } => drive(pool.get(), &mut stats),
        UOp::TimeoutGet { t, .. } | UOp::TimeoutRemove { t, .. } => drive(pool.timeout_get(ms(t)), &mut stats),
        UOp::TryGet | UOp::TryRemove => match catch_unwind(AssertUnwindSafe(|| pool.try_get())) {
            Ok(r) => PollEnd::Ready(r),
            Err(p) => PollEnd::Panicked(p),
        },
        _ => unreachable!(),
    };
    let is_remove = matches!(op, UOp::Remove { .. } | UOp::TryRemove | UOp::TimeoutRemove { .. });
    match end {
        PollEnd::Ready(Ok(obj)) => {
            let id = obj.id;
            if is_remove {
                // Pool::remove == get + Object::take; done here step by step so that the
                // ledger knows the object while it is in the caller's hands
                with_u(|w| {
                    w.ops[opi].target = Some(id);
                    w.objs[id as usize].loc = Loc::Taking(actor);
                });
                match catch_unwind(AssertUnwindSafe(move || Object::take(obj))) {
                    Ok(raw) => {
                        with_u(|w| {
                            w.objs[id as usize].loc = Loc::Raw(actor);
                            w.raw[actor].push(raw);
                            w.op_return(opi, URes::GotRaw(id));
                        });
                    }
                    Err(p) => {
                        let m = panic_msg(p);
                        with_u(|w| w.op_return(opi, URes::Panicked(m)));
                    }
                }
                None
            } else {
                with_u(|w| {
                    w.ops[opi].target = Some(id);
                    let prev = w.objs[id as usize].loc;
                    // an object whose add()/return is still in progress on another thread may
                    // already be queued, so it can legitimately be handed out
                    if !matches!(prev, Loc::Pool | Loc::Adding(_) | Loc::Returning(_)) || w.objs[id as usize].destroyed.is_some() {
                        let p = w.sc.profile.clone();
                        w.violate(&p, "exclusive_handout", format!("object #{id} handed out while it is {:?}", prev));
                    }
                    w.objs[id as usize].loc = Loc::Held(actor);
                    w.op_return(opi, URes::GotObj(id));
                });
                Some(obj)
            }
        }
        PollEnd::Ready(Err(e)) => {
            with_u(|w| w.op_return(opi, URes::Err(uerr(&e))));
            None
        }
        PollEnd::Cancelled => {
            with_u(|w| {
                w.fault("waiting_call_cancelled");
                w.op_return(opi, URes::Cancelled)
            });
            None
        }
        PollEnd::Panicked(p) => {
            let m = panic_msg(p);
            with_u(|w| w.op_return(opi, URes::Panicked(m)));
            None
        }
    }
}

fn do_add(actor: usize, op: UOp, pool: &UPool, reuse: bool, blocking: bool) {
    let (opi, obj) = with_u(|w| {
        let obj = if reuse && !w.raw[actor].is_empty() {
            w.raw[actor].remove(0)
        } else {
            w.new_obj(actor)
        };
        let opi = w.op_invoke(actor, op);
        w.ops[opi].target = Some(obj.id);
        w.objs[obj.id as usize].loc = Loc::Adding(actor);
        (opi, obj)
    });
    let id = obj.id;
    let mut stats = DriveStats::default();
    let end: PollEnd<Result<(), (UObj, PoolError)>> = if blocking {
        drive(pool.add(obj), &mut stats)
    } else {
        match catch_unwind(AssertUnwindSafe(move || pool.try_add(obj))) {
            Ok(r) => PollEnd::Ready(r),
            Err(p) => PollEnd::Panicked(p),
        }
    };
    match end {
        PollEnd::Ready(Ok(())) => with_u(|w| {
            if w.objs[id as usize].destroyed.is_none() && matches!(w.objs[id as usize].loc, Loc::Adding(a) if a == actor) {
                w.objs[id as usize].loc = Loc::Pool;
            }
            w.op_return(opi, URes::Added);
        }),
        PollEnd::Ready(Err((back, e))) => {
            let bid = back.id;
            with_u(|w| {
                w.objs[bid as usize].loc = Loc::Raw(actor);
                w.raw[actor].push(back);
                w.op_return(opi, URes::Refused(bid, uerr(&e)));
            });
        }
        PollEnd::Cancelled => with_u(|w| {
            // the object travelled inside the dropped future: the caller let go of it
            w.fault("waiting_add_cancelled");
            w.op_return(opi, URes::Cancelled);
        }),
        PollEnd::Panicked(p) => {
            let m = panic_msg(p);
            with_u(|w| w.op_return(opi, URes::Panicked(m)));
        }
    }
}

fn take_held(actor: usize, slot: u8) -> Option<UObject> {
    with_u(|w| {
        let h = &mut w.held[actor];
        if h.is_empty() {
            None
        } else {
            let i = slot as usize % h.len();
            Some(h.remove(i))
        }
    })
}

pub fn run_uop(actor: usize, op: UOp, pool: &UPool) {
    match op {
        UOp::Get { .. } | UOp::TryGet | UOp::TimeoutGet { .. } => {
            if let Some(o) = do_get(actor, op, pool) {
                with_u(|w| w.held[actor].push(o));
            }
        }
        UOp::Remove { .. } | UOp::TryRemove | UOp::TimeoutRemove { .. } => {
            let _ = do_get(actor, op, pool);
        }
        UOp::Add { reuse, .. } => do_add(actor, op, pool, reuse, true),
        UOp::TryAdd { reuse } => do_add(actor, op, pool, reuse, false),
        UOp::Sibling { kind } => {
            let opi = with_u(|w| {
                w.fault("sibling_pool_churn");
                w.op_invoke(actor, op)
            });
            let r = catch_unwind(AssertUnwindSafe(|| {
                if kind % 2 == 0 {
                    let p: Pool<SibObj> = Pool::from(vec![SibObj, SibObj]);
                    let _ = p.close();
                } else {
                    let p: Pool<SibObj> = Pool::new(2);
                    let _ = p.try_add(SibObj);
                    let _ = p.try_add(SibObj);
                    let o = p.try_get();
                    drop(o);
                    let _ = p.close();
                }
            }));
            with_u(|w| match r {
                Ok(()) => w.op_return(opi, URes::Unit),
                Err(p) => {
                    let m = panic_msg(p);
                    w.op_return(opi, URes::Panicked(m))
                }
            });
        }
        UOp::Return { slot, unwinding } => {
            let Some(obj) = take_held(actor, slot) else { return };
            let id = obj.id;
            let opi = with_u(|w| {
                let opi = w.op_invoke(actor, op);
                w.ops[opi].target = Some(id);
                w.objs[id as usize].loc = Loc::Returning(actor);
                opi
            });
            let r = if unwinding {
                // the holder panics: its object goes back to the pool from inside the unwinding
                with_u(|w| w.fault("object_dropped_by_unwinding"));
                #[allow(unreachable_code)]
                let r = catch_unwind(AssertUnwindSafe(move || {
                    let _owned = obj;
                    std::panic::panic_any(InjectedPanic(id));
                }));
                match r {
                    Err(p) if p.downcast_ref::<InjectedPanic>().is_some() => Ok(()),
                    other => other,
                }
            } else {
                catch_unwind(AssertUnwindSafe(move || drop(obj)))
            };
            with_u(|w| {
                if w.objs[id as usize].destroyed.is_none() && matches!(w.objs[id as usize].loc, Loc::Returning(a) if a == actor) {
                    w.objs[id as usize].loc = Loc::Pool;
                }
                match r {
                    Ok(()) => w.op_return(opi, URes::Unit),
                    Err(p) => {
                        let m = panic_msg(p);
                        w.op_return(opi, URes::Panicked(m))
                    }
                }
            });
        }
        UOp::Take { slot } => {
            let Some(obj) = take_held(actor, slot) else { return };
            let id = obj.id;
            let opi = with_u(|w| {
                let opi = w.op_invoke(actor, op);
                w.ops[opi].target = Some(id);
                w.objs[id as usize].loc = Loc::Taking(actor);
                opi
            });
            match catch_unwind(AssertUnwindSafe(move || Object::take(obj))) {
                Ok(raw) => with_u(|w| {
                    let got = raw.id;
                    w.objs[id as usize].loc = Loc::Raw(actor);
                    w.raw[actor].push(raw);
                    w.op_return(opi, URes::GotRaw(got));
                }),
                Err(p) => {
                    let m = panic_msg(p);
                    with_u(|w| w.op_return(opi, URes::Panicked(m)));
                }
            }
        }
        UOp::Status => {
            let opi = with_u(|w| w.op_invoke(actor, op));
            let r = catch_unwind(AssertUnwindSafe(|| pool.status()));
            with_u(|w| match r {
                Ok(s) => w.op_return(opi, URes::Status(s.into())),
                Err(p) => {
                    let m = panic_msg(p);
                    w.op_return(opi, URes::Panicked(m))
                }
            });
        }
        UOp::Close => {
            let opi = with_u(|w| {
                let opi = w.op_invoke(actor, op);
                w.close_invoked = true;
                if w.closer.is_none() {
                    w.closer = Some(actor);
                }
                opi
            });
            let r = catch_unwind(AssertUnwindSafe(|| pool.close()));
            with_u(|w| {
                if w.closed_step.is_none() {
                    w.closed_step = Some(current_step());
                    mark_must_close(w, actor);
                }
                match r {
                    Ok(()) => w.op_return(opi, URes::Unit),
                    Err(p) => {
                        let m = panic_msg(p);
                        w.op_return(opi, URes::Panicked(m))
                    }
                }
            });
        }
        UOp::Nop => {}
    }
}

fn waiting_kind(op: &UOp) -> Option<bool> {
    // Some(true) = waits for an object, Some(false) = waits for a free slot (add)
    match op {
        UOp::Get { .. } | UOp::TimeoutGet { .. } | UOp::Remove { .. } | UOp::TimeoutRemove { .. } => Some(true),
        UOp::Add { .. } => Some(false),
        _ => None,
    }
}

fn mark_must_close(w: &mut UWorld, closer: usize) {
    let wakes = engine::wakes_since(0);
    for (i, op) in w.ops.iter().enumerate() {
        if op.return_step.is_some() || op.actor == CONTROLLER || waiting_kind(&op.op).is_none() {
            continue;
        }
        let parked = w.parked.contains(&op.actor);
        let last_run = w.last_run_step.get(&op.actor).copied().unwrap_or(0);
        let woken = wakes.iter().any(|(s, a, by)| *a == op.actor && *s >= last_run && *by != closer);
        if parked && !woken {
            w.must_close.push(i);
        }
    }
}

pub fn uactor_body(actor: usize) -> Box<dyn FnOnce()> {
    let (ops, pool) = with_u(|w| (w.sc.actors[actor].clone(), w.pool.clone().unwrap()));
    Box::new(move || {
        for op in ops.iter() {
            op_boundary();
            if with_u(|w| w.draining) {
                break;
            }
            run_uop(actor, *op, &pool);
        }
        drop(pool);
    })
}

// ---------------------------------------------------------------------------
// oracles
// ---------------------------------------------------------------------------

fn is(w: &UWorld, p: &str) -> bool {
    w.sc.profile == p
}

fn overlapped(w: &UWorld, opi: usize) -> bool {
    let op = &w.ops[opi];
    let now = current_step();
    w.ops.iter().enumerate().any(|(i, o)| {
        i != opi && o.actor != op.actor && o.actor != CONTROLLER && o.invoke_step <= now && o.return_step.unwrap_or(u64::MAX) >= op.invoke_step
    })
}

fn oracle_on_return(w: &mut UWorld, opi: usize) -> Option<Violation> {
    let op = w.ops[opi].clone();
    let res = op.res.clone()?;
    let pid = w.sc.profile.clone();
    let max = w.sc.max_size();
    let v = |c: &str, d: String| Some(engine::violation(&pid, c, d));
    // ---- timeouts (C10, unmanaged half) ---------------------------------------------------
    if is(w, "C10") {
        let (t, is_cfg) = match op.op {
            UOp::Get { .. } | UOp::Remove { .. } => (w.sc.cfg_timeout(), true),
            UOp::TimeoutGet { t, .. } | UOp::TimeoutRemove { t, .. } => (t, false),
            _ => (None, false),
        };
        let _ = is_cfg;
        let waits = waiting_kind(&op.op) == Some(true);
        if waits {
            match t {
                Some(0) => {
                    if op.pendings > 0 {
                        return v("zero_timeout_never_pending", format!("{:?} with a zero timeout returned Pending {} time(s)", op.op, op.pendings));
                    }
                }
                Some(tms) if w.sc.has_runtime() => {
                    if res == URes::Err(UErr::Timeout) {
                        let start = op.wait_start_ms.unwrap_or(op.return_ms.unwrap_or(0));
                        let now = op.return_ms.unwrap_or(0);
                        if now < start.saturating_add(tms) {
                            return v("timeout_not_early", format!("Timeout {} ms after the call started waiting, timeout is {} ms", now - start, tms));
                        }
                        w.probe("um_timeout_fired");
                    }
                    if res == URes::Err(UErr::NoRuntime) {
                        return v("no_runtime_only_when_missing", "NoRuntimeSpecified although the pool has a runtime".into());
                    }
                }
                Some(_) => {
                    // non-zero timeout, no runtime
                    if res != URes::Err(UErr::NoRuntime) && res != URes::Cancelled {
                        return v("no_runtime_reported", format!("{:?} with a non-zero timeout but no runtime returned {:?}", op.op, res));
                    }
                    if op.pendings > 0 {
                        return v("no_runtime_no_hang", "call with a non-zero timeout but no runtime was left pending".into());
                    }
                    w.probe("um_no_runtime_checked");
                }
                None => {
                    if matches!(res, URes::Err(UErr::Timeout) | URes::Err(UErr::NoRuntime)) {
                        return v("no_timeout_configured", format!("{:?} without timeout returned {:?}", op.op, res));
                    }
                }
            }
        }
    }
    // ---- try_add reports Timeout only if the pool was full at some instant of the call ----
    if let UOp::TryAdd { .. } = op.op {
        let peak = w.tryadd_peak.remove(&opi).unwrap_or(usize::MAX).max(w.slots_upper(op.actor));
        if matches!(res, URes::Refused(_, UErr::Timeout)) && peak < max && !w.close_invoked && (is(w, "C05") || is(w, "C10")) {
            return v(
                "try_add_timeout_iff_full",
                format!("try_add reported Timeout although at most {peak} of {max} slots were in use at any instant of the call"),
            );
        }
    }
    // ---- Closed is the answer of a closed pool only ----------------------------------------
    if !w.close_invoked && matches!(res, URes::Err(UErr::Closed) | URes::Refused(_, UErr::Closed)) {
        return v("closed_only_when_closed", format!("{:?} returned {:?} on a pool that was never closed", op.op, res));
    }
    // ---- add() has no timeout: it waits for a slot and fails only on a closed pool ---------
    if let (UOp::Add { .. }, URes::Refused(id, e)) = (&op.op, &res) {
        if *e != UErr::Closed || !w.close_invoked {
            return v(
                "add_waits_for_slot",
                format!("add() gave back #{id} with {:?} on a pool that {}", e, if w.close_invoked { "is being closed" } else { "was never closed" }),
            );
        }
    }
    // ---- close finality (C12) -----------------------------------------------------------
    if let Some(s) = w.closed_step {
        if is(w, "C12") {
            let after = op.invoke_step > s;
            let must = w.must_close.contains(&opi);
            if after || must {
                match (&op.op, &res) {
                    (UOp::Add { .. } | UOp::TryAdd { .. }, URes::Refused(id, UErr::Closed)) => {
                        if Some(*id) != op.target {
                            return v("add_after_close_returns_object", format!("add on a closed pool handed back #{id} instead of #{:?}", op.target));
                        }
                        w.probe("add_after_close_refused");
                    }
                    (UOp::Add { .. } | UOp::TryAdd { .. }, URes::Cancelled) => {}
                    (UOp::Add { .. } | UOp::TryAdd { .. }, r) => {
                        return v("add_after_close_is_closed", format!("{:?} {} close() returned gave {:?}", op.op, if after { "invoked after" } else { "still waiting when" }, r));
                    }
                    (o, r) if waiting_kind(o).is_some() || matches!(o, UOp::TryGet | UOp::TryRemove) => {
                        let ok = matches!(r, URes::Err(UErr::Closed) | URes::Cancelled) || (must && matches!(r, URes::Err(UErr::Timeout)))
                            || (matches!(r, URes::Err(UErr::NoRuntime)) && !w.sc.has_runtime());
                        if !ok {
                            return v("call_after_close_is_closed", format!("{:?} {} close() returned gave {:?}", op.op, if after { "invoked after" } else { "still waiting when" }, r));
                        }
                        if matches!(r, URes::Err(UErr::Closed)) {
                            w.probe(if after { "get_after_close_closed" } else { "waiting_get_closed" });
                        }
                    }
                    (UOp::Return { .. }, URes::Unit) if after => {
                        if let Some(id) = op.target {
                            let o = &w.objs[id as usize];
                            if o.destroyed.is_none() {
                                // a get() that had obtained its permit before close() ran may
                                // still pick it up; the pool itself must not keep it
                                // (or it is already on its next journey: picked up by an admitted
                                // get and being returned / taken again by that caller)
                                let caller_has_it = !matches!(o.loc, Loc::Pool);
                                let queued = usnapshot(w).map(|(_, q)| q.contains(&id));
                                if !caller_has_it && queued == Some(true) {
                                    return v("returned_after_close_dropped", format!("object #{id} was returned after close() returned and is still kept by the pool"));
                                }
                                w.probe("return_after_close_taken_by_admitted_get");
                            } else {
                                w.probe("return_after_close_dropped");
                            }
                        }
                    }
                    _ => {}
                }
            }
        }
        return None;
    }
    if w.close_invoked {
        return None; // close in progress: verdicts around it are judged by the clauses above
    }
    // ---- open pool: exactness by differential (nothing else running) ---------------------
    if (is(w, "C05") || is(w, "C10")) && !overlapped(w, opi) {
        if let Some((s0, q0)) = op.snap0.clone() {
            let owned0 = q0.len() + w.objs.iter().filter(|o| o.destroyed.is_none() && matches!(o.loc, Loc::Held(_))).count()
                + if matches!(op.op, UOp::Return { .. }) { 1 } else { 0 };
            let _ = s0;
            match (&op.op, &res) {
                (UOp::TryAdd { .. }, URes::Refused(id, e)) => {
                    if Some(*id) != op.target {
                        return v("refused_add_returns_object", format!("try_add handed back #{id} instead of #{:?}", op.target));
                    }
                    if *e != UErr::Timeout || owned0 < max {
                        return v("try_add_timeout_iff_full", format!("try_add reported {:?} with {} of {} slots in use", e, owned0, max));
                    }
                    w.probe("try_add_refused_when_full");
                }
                (UOp::TryAdd { .. }, URes::Added) => {
                    if owned0 >= max {
                        return v("try_add_timeout_iff_full", format!("try_add succeeded although {} of {} slots were in use", owned0, max));
                    }
                }
                (UOp::TryGet | UOp::TryRemove, URes::Err(e)) => {
                    if *e != UErr::Timeout || !q0.is_empty() {
                        return v("try_get_timeout_iff_empty", format!("{:?} reported {:?} with {} object(s) waiting in the pool", op.op, e, q0.len()));
                    }
                }
                (UOp::TimeoutGet { t: Some(0), .. } | UOp::TimeoutRemove { t: Some(0), .. }, URes::Err(e)) => {
                    if *e != UErr::Timeout || !q0.is_empty() {
                        return v("try_get_timeout_iff_empty", format!("{:?} reported {:?} with {} object(s) waiting in the pool", op.op, e, q0.len()));
                    }
                }
                _ => {}
            }
        }
    }
    None
}

pub fn after_step(w: &mut UWorld, info: &SimInfo) -> Option<Violation> {
    if !w.tryadd_peak.is_empty() {
        let keys: Vec<usize> = w.tryadd_peak.keys().copied().collect();
        for k in keys {
            let n = w.slots_upper(w.ops[k].actor);
            let e = w.tryadd_peak.get_mut(&k).unwrap();
            *e = (*e).max(n);
        }
    }
    if let Decision::Run(a) | Decision::Cancel(a) | Decision::Spurious(a) = info.last {
        let _ = w.last_run_step.insert(a, info.step);
    }
    w.parked = info.states.iter().enumerate().filter(|(_, s)| **s == AState::Pending).map(|(i, _)| i).collect();
    // the timer of a waiting call is created in the step that first reaches the semaphore
    let new = engine::site_log_since(w.site_log_pos);
    w.site_log_pos += new.len();
    let pre_acquire = engine::site_index("sync.sem.pre_acquire").unwrap() as u16;
    for (_, actor, site) in new {
        if site == pre_acquire && actor != CONTROLLER {
            if let Some(opi) = w.cur_op.get(actor).copied().flatten() {
                if waiting_kind(&w.ops[opi].op) == Some(true) && w.ops[opi].wait_start_ms.is_none() {
                    w.ops[opi].wait_start_ms = Some(info.now_ms);
                }
            }
        }
    }
    if let (Decision::Run(a), Some(engine::Yield::Pending)) = (info.last, info.last_yield) {
        if let Some(opi) = w.cur_op.get(a).copied().flatten() {
            if w.ops[opi].wait_start_ms.is_none() {
                w.ops[opi].wait_start_ms = Some(info.now_ms);
                let t = match w.ops[opi].op {
                    UOp::Get { .. } | UOp::Remove { .. } => w.sc.cfg_timeout(),
                    UOp::TimeoutGet { t, .. } | UOp::TimeoutRemove { t, .. } => t,
                    _ => None,
                };
                if let Some(t) = t {
                    if t > 0 {
                        register_deadline(t);
                    }
                }
            }
        }
    }
    if let Some(v) = w.pending_violation.take() {
        return Some(v);
    }
    let pid = w.sc.profile.clone();
    let max = w.sc.max_size();
    if is(w, "C05") && w.closed_step.is_none() && !w.close_invoked {
        let owned = w.n_owned();
        // a remove() in flight may already have taken its object out (the ledger learns which
        // one when the call returns)
        let removing = w.ops.iter().filter(|o| o.return_step.is_none() && matches!(o.op, UOp::Remove { .. } | UOp::TryRemove | UOp::TimeoutRemove { .. })).count();
        if owned > max + removing {
            return Some(engine::violation("C05", "size_over_limit", format!("{owned} objects belong to the pool, max_size is {max}")));
        }
    }
    if let Some((s, q)) = usnapshot(w) {
        let key = simcore::rng::mix(&[s.permits as u64, s.size_permits as u64, s.size as u64, s.available as u64 ^ 0x8000, q.len() as u64, w.parked.len() as u64, s.closed as u64]);
        let _ = w.states.insert(key);
        if w.closed_step.is_none() && !w.close_invoked && (is(w, "C05") || is(w, "C12")) {
            // conservation: every object the ledger places in the pool and that is not in transit
            // must be in the queue
            let in_transit: Vec<u32> = w
                .ops
                .iter()
                .filter(|o| o.return_step.is_none())
                .filter_map(|o| o.target)
                .collect();
            for (id, o) in w.objs.iter().enumerate() {
                if o.destroyed.is_none() && o.loc == Loc::Pool && !q.contains(&(id as u32)) && !in_transit.contains(&(id as u32)) {
                    // it may have been popped by a get that is in progress (target not known yet)
                    let getting = w.ops.iter().any(|o| o.return_step.is_none() && matches!(o.op, UOp::Get { .. } | UOp::TryGet | UOp::TimeoutGet { .. } | UOp::Remove { .. } | UOp::TryRemove | UOp::TimeoutRemove { .. }));
                    if !getting {
                        return Some(engine::violation(&pid, "object_lost", format!("object #{id} belongs to the pool but is neither queued, held nor in transit (queue {:?})", q)));
                    }
                }
            }
            for id in &q {
                let o = &w.objs[*id as usize];
                if matches!(o.loc, Loc::Held(_) | Loc::Raw(_)) && !in_transit.contains(id) {
                    return Some(engine::violation(&pid, "object_in_two_places", format!("object #{id} is queued in the pool and {:?} at the same time", o.loc)));
                }
            }
            if q.len() > max {
                return Some(engine::violation(&pid, "queue_over_limit", format!("{} objects queued, max_size {max}", q.len())));
            }
        }
    }
    None
}

pub fn quiescent(w: &mut UWorld, info: &SimInfo) -> Option<Violation> {
    w.quiescent_points += 1;
    if let Some(v) = w.pending_violation.take() {
        return Some(v);
    }
    let pid = w.sc.profile.clone();
    let max = w.sc.max_size();
    let Some((s, q)) = usnapshot(w) else { return None };
    let waiting_get: Vec<usize> = w.ops.iter().enumerate().filter(|(_, o)| o.return_step.is_none() && waiting_kind(&o.op) == Some(true)).map(|(i, _)| i).collect();
    let waiting_add: Vec<usize> = w.ops.iter().enumerate().filter(|(_, o)| o.return_step.is_none() && waiting_kind(&o.op) == Some(false)).map(|(i, _)| i).collect();
    let closed = w.closed_step.is_some();
    if closed {
        if is(w, "C12") {
            if !waiting_get.is_empty() || !waiting_add.is_empty() {
                return Some(engine::violation("C12", "waiter_on_closed_pool", format!("{} caller(s) are still blocked after close() returned", waiting_get.len() + waiting_add.len())));
            }
            if !q.is_empty() {
                return Some(engine::violation("C12", "closed_pool_holds_nothing", format!("after close() returned the pool still holds {:?}", q)));
            }
            let held = w.n_held();
            if s.size != held {
                return Some(engine::violation("C12", "closed_pool_size", format!("closed pool reports size {} but {} object(s) are checked out and none queued", s.size, held)));
            }
            w.probe("closed_pool_empty_at_rest");
        }
        return None;
    }
    if w.close_invoked {
        return None;
    }
    if is(w, "C05") || is(w, "C10") {
        // nobody waits without reason
        if !waiting_get.is_empty() && !q.is_empty() {
            return Some(engine::violation(&pid, "stranded_getter", format!("no task is runnable, {} caller(s) wait for an object although {:?} are queued", waiting_get.len(), q)));
        }
        let owned = w.n_owned();
        if !waiting_add.is_empty() && owned < max {
            return Some(engine::violation(&pid, "stranded_adder", format!("no task is runnable, {} add() call(s) wait although only {} of {} slots are in use", waiting_add.len(), owned, max)));
        }
        if is(w, "C10") && w.sc.has_runtime() {
            for i in &waiting_get {
                let op = &w.ops[*i];
                let t = match op.op {
                    UOp::Get { .. } | UOp::Remove { .. } => w.sc.cfg_timeout(),
                    UOp::TimeoutGet { t, .. } | UOp::TimeoutRemove { t, .. } => t,
                    _ => None,
                };
                if let (Some(t), Some(st)) = (t, op.wait_start_ms) {
                    if t > 0 && info.now_ms > st.saturating_add(t) {
                        return Some(engine::violation("C10", "timeout_fires", format!("no task is runnable at t={} ms but a call waiting since {} ms with a {} ms timeout is still waiting", info.now_ms, st, t)));
                    }
                }
            }
        }
    }
    // rest point: every in-progress op is a waiter
    let rest = w.ops.iter().all(|o| o.return_step.is_some() || waiting_kind(&o.op).is_some());
    if rest && is(w, "C05") {
        w.rest_points += 1;
        let st: crate::mworld::StatusV = w.pool.as_ref().unwrap().status().into();
        let held = w.n_held();
        let exp = crate::mworld::StatusV {
            max_size: max,
            size: q.len() + held,
            available: q.len(),
            waiting: waiting_get.len(),
        };
        if st != exp {
            return Some(engine::violation("C05", "status_exact_at_rest", format!("status() = {:?}, ground truth = {:?}", st, exp)));
        }
        if s.permits != q.len() || s.size_permits != max - (q.len() + held) {
            return Some(engine::violation(
                "C05",
                "semaphores_at_rest",
                format!("object permits {} (queued {}), slot permits {} (free slots {})", s.permits, q.len(), s.size_permits, max - (q.len() + held)),
            ));
        }
    }
    None
}

// ---------------------------------------------------------------------------
// run
// ---------------------------------------------------------------------------

pub struct UHandle;

impl World for UHandle {
    fn actors(&self) -> usize {
        with_u(|w| w.sc.actors.len())
    }
    fn actor_body(&mut self, i: usize) -> Box<dyn FnOnce()> {
        uactor_body(i)
    }
    fn openable_gates(&mut self, _out: &mut Vec<u32>) {}
    fn open_gate(&mut self, _g: u32) {}
    fn cancellable(&mut self, actor: usize) -> bool {
        with_u(|w| match w.cur_op.get(actor).copied().flatten() {
            Some(opi) => {
                w.draining
                    || matches!(
                        w.ops[opi].op,
                        UOp::Get { cancellable: true }
                            | UOp::TimeoutGet { cancellable: true, .. }
                            | UOp::Add { cancellable: true, .. }
                            | UOp::Remove { cancellable: true }
                            | UOp::TimeoutRemove { cancellable: true, .. }
                    )
            }
            None => false,
        })
    }
    fn note_cancel(&mut self, actor: usize) {
        with_u(|w| w.cancelling = Some(actor));
    }
    fn after_step(&mut self, sim: &SimInfo) -> Option<Violation> {
        with_u(|w| after_step(w, sim))
    }
    fn quiescent(&mut self, sim: &SimInfo) -> Option<Violation> {
        with_u(|w| quiescent(w, sim))
    }
}

fn build(sc: &UScenario, w: &mut UWorld) -> UPool {
    match sc.ctor {
        Ctor::New { max_size } => Pool::new(max_size),
        Ctor::FromConfig { max_size, timeout, runtime } => Pool::from_config(&PoolConfig {
            max_size,
            timeout: ms(timeout),
            runtime: if runtime { Some(Runtime::Tokio1) } else { None },
        }),
        Ctor::FromVec { n, spare } => {
            let mut v: Vec<UObj> = Vec::with_capacity(n + spare);
            for _ in 0..n {
                let o = w.new_obj(CONTROLLER);
                w.objs[o.id as usize].loc = Loc::Pool;
                v.push(o);
            }
            Pool::from(v)
        }
    }
}

fn drain(sim: &mut Sim, h: &mut UHandle) -> bool {
    with_u(|w| w.draining = true);
    for _ in 0..64 {
        if sim.settle(h, 20_000).is_err() {
            let _ = with_u(|w| w.pending_violation.take());
        }
        let pending = sim.pending_actors();
        if pending.is_empty() {
            return true;
        }
        for a in pending {
            h.note_cancel(a);
            let _ = sim.resume(a, Resume::Cancel);
        }
    }
    false
}

pub fn run_uscenario(sc: &UScenario, replay: Option<Vec<Decision>>, trace: bool) -> RunOutcome {
    begin_run(&sc.knobs, sc.actors.len(), trace, 256 * 1024);
    let mut sim = Sim::new(sc.sched_seed, sc.knobs.clone(), replay);
    let handle = sim.clock.handle();
    let guard = handle.enter();
    let n = sc.actors.len();
    let mut w = UWorld {
        sc: sc.clone(),
        pool: None,
        objs: Vec::new(),
        ops: Vec::new(),
        cur_op: vec![None; n],
        held: (0..n).map(|_| Vec::new()).collect(),
        raw: (0..n).map(|_| Vec::new()).collect(),
        draining: false,
        pending_violation: None,
        faults: BTreeMap::new(),
        probes: BTreeMap::new(),
        closed_step: None,
        close_invoked: false,
        closer: None,
        must_close: Vec::new(),
        parked: Default::default(),
        last_run_step: BTreeMap::new(),
        states: Default::default(),
        quiescent_points: 0,
        rest_points: 0,
        cancelling: None,
        site_log_pos: 0,
        tryadd_peak: BTreeMap::new(),
    };
    let pool = build(sc, &mut w);
    w.pool = Some(pool);
    UW.with(|c| *c.borrow_mut() = Some(w));
    let mut h = UHandle;
    for i in 0..n {
        let b = h.actor_body(i);
        let _ = sim.add_actor(b);
    }
    let mut violation = None;
    let mut diverged = None;
    let mut step_cap_hit = false;
    let end = sim.run(&mut h);
    let main_len = sim.decisions.len();
    match end {
        RunEnd::Finished => {}
        RunEnd::Violation(v) => violation = Some(v),
        RunEnd::StepCap => step_cap_hit = true,
        RunEnd::Diverged(e) => diverged = Some(e),
        RunEnd::Deadlock(d) => {
            violation = Some(engine::violation(&sc.profile, "deadlock", format!("no thread can move: {d} wait for a lock that is never released")))
        }
    }
    let drained = drain(&mut sim, &mut h);
    if violation.is_none() && diverged.is_none() {
        if !drained || step_cap_hit {
            violation = Some(engine::violation(&sc.profile, "no_progress", "operations could not be completed (step cap / drain budget)".into()));
        } else {
            violation = epilogue(sc);
        }
    }
    // tear down
    let (held, raw, pool) = with_u(|w| {
        w.draining = true;
        for o in w.objs.iter_mut() {
            o.destroyed_by_harness = true;
        }
        let mut hv = Vec::new();
        for h in w.held.iter_mut() {
            hv.append(h);
        }
        let mut rv = Vec::new();
        for r in w.raw.iter_mut() {
            rv.append(r);
        }
        (hv, rv, w.pool.take())
    });
    for o in held {
        let _ = catch_unwind(AssertUnwindSafe(move || drop(o)));
    }
    drop(raw);
    let _ = catch_unwind(AssertUnwindSafe(move || drop(pool)));
    let w = UW.with(|c| c.borrow_mut().take()).unwrap();
    let stats = sim.stats.clone();
    let mut decisions = sim.decisions.clone();
    decisions.truncate(main_len);
    let virtual_ms = sim.clock.advanced_total_ms;
    let mut faults = w.faults.clone();
    for (k, v) in [
        ("controller_cancelled_future", stats.cancels),
        ("spurious_poll", stats.spurious),
        ("time_jump_with_runnable_threads", stats.jump_with_runnable),
        ("clock_advance", stats.advances),
        ("lock_contention_yield", stats.lock_busy),
    ] {
        if v > 0 {
            *faults.entry(k.to_string()).or_insert(0) += v;
        }
    }
    if w.close_invoked {
        *faults.entry("close_during_history".into()).or_insert(0) += 1;
    }
    let mut probes = w.probes.clone();
    *probes.entry("quiescent_points".into()).or_insert(0) += w.quiescent_points;
    *probes.entry("rest_points".into()).or_insert(0) += w.rest_points;
    let ops = w.ops.iter().filter(|o| o.actor != CONTROLLER).count() as u64;
    // non-trivial: two ops of different actors overlapped with a context switch, or a fault fired
    let mut overlap = false;
    for (i, a) in w.ops.iter().enumerate() {
        for b in w.ops[i + 1..].iter() {
            if a.actor != b.actor
                && a.invoke_step < b.return_step.unwrap_or(u64::MAX)
                && b.invoke_step < a.return_step.unwrap_or(u64::MAX)
                && Some(a.invoke_step) != a.return_step
                && Some(b.invoke_step) != b.return_step
            {
                overlap = true;
            }
        }
    }
    let nontrivial = (overlap && stats.switches > 0) || w.faults.values().sum::<u64>() > 0 || w.close_invoked;
    let states: Vec<u64> = w.states.iter().copied().collect();
    drop(w);
    sim.abandon_unfinished();
    drop(guard);
    drop(sim);
    let (log_hash, trace) = end_run();
    RunOutcome {
        violation,
        diverged,
        decisions,
        log_hash,
        trace,
        steps: stats.steps,
        switches: stats.switches,
        virtual_ms,
        ops,
        nontrivial,
        ileave: stats.interleaving_hash,
        faults,
        probes,
        states,
        step_cap_hit,
        switch_pairs: stats.switch_pairs.iter().copied().collect(),
    }
}

/// End of history: everything is handed back, then the books must balance and the pool must
/// still work (capacity probe through the public API).
fn epilogue(sc: &UScenario) -> Option<Violation> {
    if let Some(v) = with_u(|w| w.pending_violation.take()) {
        return Some(v);
    }
    let pid = sc.profile.clone();
    // return every held object
    let held: Vec<UObject> = with_u(|w| {
        let mut v = Vec::new();
        for h in w.held.iter_mut() {
            v.append(h);
        }
        v
    });
    let closed = with_u(|w| w.closed_step.is_some());
    for o in held {
        let id = o.id;
        with_u(|w| w.objs[id as usize].loc = Loc::Returning(CONTROLLER));
        if catch_unwind(AssertUnwindSafe(move || drop(o))).is_err() {
            let m = engine::take_last_panic().unwrap_or_default();
            return Some(engine::violation(&pid, "unexpected_panic", format!("returning object #{id} panicked: {m}")));
        }
        with_u(|w| {
            if w.objs[id as usize].destroyed.is_none() {
                w.objs[id as usize].loc = Loc::Pool;
            }
        });
    }
    if let Some(v) = with_u(|w| w.pending_violation.take()) {
        return Some(v);
    }
    let (snap, pool, max) = with_u(|w| (usnapshot(w), w.pool.clone().unwrap(), w.sc.max_size()));
    let (s, q) = snap?;
    if closed {
        if pid == "C12" && (!q.is_empty() || s.size != 0) {
            return Some(engine::violation("C12", "closed_pool_holds_nothing", format!("at the end the closed pool holds {:?} and reports size {}", q, s.size)));
        }
        return None;
    }
    if with_u(|w| w.close_invoked) {
        return None;
    }
    if pid == "C05" {
        let st: crate::mworld::StatusV = pool.status().into();
        let exp = crate::mworld::StatusV { max_size: max, size: q.len(), available: q.len(), waiting: 0 };
        if st != exp {
            return Some(engine::violation("C05", "status_exact_at_rest", format!("at the end status() = {:?}, ground truth = {:?}", st, exp)));
        }
        if s.permits != q.len() || s.size_permits != max - q.len() {
            return Some(engine::violation("C05", "semaphores_at_rest", format!("at the end: object permits {} (queued {}), slot permits {} (free slots {})", s.permits, q.len(), s.size_permits, max - q.len())));
        }
        // capacity probe: every queued object can be taken out, one more times out; the pool can
        // then be filled up to max_size and refuses one more
        let mut got = Vec::new();
        for i in 0..=q.len() {
            match pool.try_get() {
                Ok(o) => {
                    if i == q.len() {
                        return Some(engine::violation("C05", "capacity_probe", format!("probe obtained {} objects, only {} are in the pool", i + 1, q.len())));
                    }
                    got.push(o);
                }
                Err(e) => {
                    if i < q.len() || uerr(&e) != UErr::Timeout {
                        return Some(engine::violation("C05", "capacity_probe", format!("probe try_get #{i} failed with {:?}, {} objects are in the pool", uerr(&e), q.len())));
                    }
                }
            }
        }
        let mut extra = Vec::new();
        for i in 0..=(max - q.len()) {
            let o = with_u(|w| {
                let o = w.new_obj(CONTROLLER);
                w.objs[o.id as usize].destroyed_by_harness = true;
                o
            });
            match pool.try_add(o) {
                Ok(()) => {
                    if i == max - q.len() {
                        return Some(engine::violation("C05", "capacity_probe", format!("probe could add {} objects to {} held: max_size {} exceeded", i + 1, q.len(), max)));
                    }
                }
                Err((o, e)) => {
                    if i < max - q.len() || uerr(&e) != UErr::Timeout {
                        return Some(engine::violation("C05", "capacity_probe", format!("probe try_add #{i} failed with {:?} although only {} of {} slots are in use", uerr(&e), q.len() + i, max)));
                    }
                    extra.push(o);
                }
            }
        }
        with_u(|w| {
            for o in w.objs.iter_mut() {
                o.destroyed_by_harness = true;
            }
            w.draining = true;
        });
        drop(got);
        drop(extra);
    }
    None
}

// ---------------------------------------------------------------------------
// generator / harness
// ---------------------------------------------------------------------------

fn small_ms(rng: &mut Rng) -> u64 {
    // boundary values: whole seconds and "practically no timeout"
    match rng.below(100) {
        0..=7 => *rng.pick(&[1000u64, 2000]),
        8..=9 => u64::MAX,
        _ => *rng.pick(&[1u64, 2, 5, 5, 10, 10, 20]),
    }
}

pub fn gen_unmanaged(rng: &mut Rng, profile: &str, thorough: bool) -> UScenario {
    let max_size = *rng.pick(&[0usize, 1, 1, 2, 2, 3, 4]);
    let timeouts = profile == "C10";
    let ctor = match rng.below(10) {
        0..=3 => Ctor::New { max_size },
        4..=7 => {
            let runtime = if timeouts { rng.below(100) < 70 } else { rng.coin() };
            let timeout = if timeouts && rng.below(100) < 70 {
                Some(if rng.below(100) < 8 { *rng.pick(&[1000u64, u64::MAX]) } else { *rng.pick(&[0u64, 5, 10, 20]) })
            } else if !timeouts && runtime && rng.below(100) < 30 {
                Some(small_ms(rng))
            } else {
                None
            };
            Ctor::FromConfig { max_size, timeout, runtime }
        }
        _ => Ctor::FromVec { n: max_size, spare: *rng.pick(&[0usize, 0, 1, 5]) },
    };
    let n_actors = rng.range(1, if thorough { 6 } else { 4 });
    // a share of the runs has a second, unrelated pool come and go next to the one under test
    let sibling = rng.below(100) < 12;
    // C12: close() anywhere, sometimes from two threads at once; C10: a timed waiter may meet close()
    let mut close_budget = match profile {
        "C12" => *rng.pick(&[0u32, 1, 1, 1, 2]),
        "C10" => *rng.pick(&[0u32, 0, 1]),
        _ => 0,
    };
    let mut actors = Vec::new();
    for _ in 0..n_actors {
        let n_ops = rng.range(1, if thorough { 10 } else { 6 });
        let mut ops = Vec::new();
        for k in 0..n_ops {
            let canc = rng.below(100) < 40;
            let tmo = |rng: &mut Rng| -> Option<u64> {
                match rng.below(10) {
                    0..=2 => None,
                    3..=5 => Some(0),
                    _ => Some(small_ms(rng)),
                }
            };
            let w = [
                14u32, // get
                8,     // try_get
                if timeouts { 22 } else { 8 }, // timeout_get
                16,    // add
                10,    // try_add
                5,     // remove
                4,     // try_remove
                if timeouts { 8 } else { 3 }, // timeout_remove
                if k == 0 { 0 } else { 16 }, // return
                if k == 0 { 0 } else { 6 },  // take
                4,     // status
                if close_budget > 0 { 7 } else { 0 },
            ];
            let op = match rng.weighted(&w) {
                0 => UOp::Get { cancellable: canc },
                1 => UOp::TryGet,
                2 => UOp::TimeoutGet { t: tmo(rng), cancellable: canc },
                3 => UOp::Add { reuse: rng.coin(), cancellable: canc },
                4 => UOp::TryAdd { reuse: rng.coin() },
                5 => UOp::Remove { cancellable: canc },
                6 => UOp::TryRemove,
                7 => UOp::TimeoutRemove { t: tmo(rng), cancellable: canc },
                8 => UOp::Return { slot: rng.below(4) as u8, unwinding: rng.below(100) < 7 },
                9 => UOp::Take { slot: rng.below(4) as u8 },
                10 => UOp::Status,
                _ => {
                    close_budget -= 1;
                    UOp::Close
                }
            };
            ops.push(op);
            if sibling && rng.below(100) < 20 {
                ops.push(UOp::Sibling { kind: rng.below(2) as u8 });
            }
        }
        actors.push(ops);
    }
    // with a panic in the history no thread may be parked inside a critical section (a second
    // thread unwinding into that lock would have to wait in the middle of its unwinding)
    let unwinds = actors.iter().any(|a: &Vec<UOp>| a.iter().any(|o| matches!(o, UOp::Return { unwinding: true, .. })));
    let mut knobs = crate::mgen::gen_knobs(rng, unwinds, false);
    knobs.p_cancel = *rng.pick(&[0u32, 30, 100, 300]);
    if sibling {
        knobs.sites.push("harness.dtor".to_string());
    }
    if !unwinds && rng.below(100) < 25 {
        knobs.sites.push("harness.udtor".to_string());
    }
    UScenario {
        profile: profile.to_string(),
        ctor,
        actors,
        knobs,
        sched_seed: rng.next(),
    }
}

pub struct Unmanaged;

fn opname(o: &UOp) -> String {
    match o {
        UOp::Get { cancellable } => format!("Get{}", if *cancellable { "+canc" } else { "" }),
        UOp::TryGet => "TryGet".into(),
        UOp::TimeoutGet { t, cancellable } => format!("TimeoutGet({}){}", tn(t), if *cancellable { "+canc" } else { "" }),
        UOp::Add { cancellable, .. } => format!("Add{}", if *cancellable { "+canc" } else { "" }),
        UOp::TryAdd { .. } => "TryAdd".into(),
        UOp::Remove { .. } => "Remove".into(),
        UOp::TryRemove => "TryRemove".into(),
        UOp::TimeoutRemove { t, .. } => format!("TimeoutRemove({})", tn(t)),
        UOp::Return { unwinding, .. } => format!("Return{}", if *unwinding { "!unwinding" } else { "" }),
        UOp::Take { .. } => "Take".into(),
        UOp::Sibling { kind } => format!("Sibling({})", kind % 2),
        UOp::Status => "Status".into(),
        UOp::Close => "Close".into(),
        UOp::Nop => "Nop".into(),
    }
}

fn tn(t: &Option<u64>) -> &'static str {
    match t {
        None => "none",
        Some(0) => "zero",
        Some(_) => "finite",
    }
}

impl Harness for Unmanaged {
    type Sc = UScenario;
    fn name(&self) -> &'static str {
        "dsim-unmanaged"
    }
    fn generate(&self, rng: &mut Rng, profile: &str, thorough: bool) -> UScenario {
        gen_unmanaged(rng, profile, thorough)
    }
    fn run(&self, sc: &UScenario, replay: Option<Vec<Decision>>, trace: bool) -> RunOutcome {
        run_uscenario(sc, replay, trace)
    }
    fn set_sched_seed(&self, sc: &mut UScenario, seed: u64) {
        sc.sched_seed = seed;
    }
    fn shrink_candidates(&self, sc: &UScenario) -> Vec<UScenario> {
        let mut out = Vec::new();
        if sc.actors.len() > 1 {
            for i in 0..sc.actors.len() {
                let mut c = sc.clone();
                let _ = c.actors.remove(i);
                out.push(c);
            }
        }
        for i in 0..sc.actors.len() {
            let n = sc.actors[i].len();
            if n > 2 {
                let mut c = sc.clone();
                c.actors[i].truncate(n / 2);
                out.push(c);
            }
        }
        for i in 0..sc.actors.len() {
            for k in (0..sc.actors[i].len()).rev() {
                let mut c = sc.clone();
                let _ = c.actors[i].remove(k);
                if c.actors[i].is_empty() && c.actors.len() > 1 {
                    let _ = c.actors.remove(i);
                }
                out.push(c);
            }
        }
        match sc.ctor {
            Ctor::FromConfig { max_size, timeout, runtime } => {
                if timeout.is_none() {
                    let mut c = sc.clone();
                    c.ctor = Ctor::New { max_size };
                    out.push(c);
                } else {
                    let mut c = sc.clone();
                    c.ctor = Ctor::FromConfig { max_size, timeout: None, runtime };
                    out.push(c);
                }
            }
            Ctor::FromVec { n, spare } => {
                if spare > 0 {
                    let mut c = sc.clone();
                    c.ctor = Ctor::FromVec { n, spare: 0 };
                    out.push(c);
                }
                if n == 0 {
                    let mut c = sc.clone();
                    c.ctor = Ctor::New { max_size: 0 };
                    out.push(c);
                }
            }
            _ => {}
        }
        let m = sc.max_size();
        if m > 0 {
            let mut c = sc.clone();
            c.ctor = match sc.ctor {
                Ctor::New { .. } => Ctor::New { max_size: m - 1 },
                Ctor::FromConfig { timeout, runtime, .. } => Ctor::FromConfig { max_size: m - 1, timeout, runtime },
                Ctor::FromVec { spare, .. } => Ctor::FromVec { n: m - 1, spare },
            };
            out.push(c);
        }
        for i in 0..sc.actors.len() {
            for k in 0..sc.actors[i].len() {
                let simpler = match sc.actors[i][k] {
                    UOp::Get { cancellable: true } => Some(UOp::Get { cancellable: false }),
                    UOp::TimeoutGet { t, cancellable: true } => Some(UOp::TimeoutGet { t, cancellable: false }),
                    UOp::Add { reuse, cancellable: true } => Some(UOp::Add { reuse, cancellable: false }),
                    UOp::Add { reuse: true, cancellable } => Some(UOp::Add { reuse: false, cancellable }),
                    UOp::TryAdd { reuse: true } => Some(UOp::TryAdd { reuse: false }),
                    _ => None,
                };
                if let Some(s) = simpler {
                    let mut c = sc.clone();
                    c.actors[i][k] = s;
                    out.push(c);
                }
            }
        }
        if !sc.knobs.sites.is_empty() {
            let mut c = sc.clone();
            c.knobs.sites.clear();
            out.push(c);
            if sc.knobs.sites.len() > 1 {
                for i in 0..sc.knobs.sites.len() {
                    let mut c = sc.clone();
                    let _ = c.knobs.sites.remove(i);
                    out.push(c);
                }
            }
        }
        for f in 0..3 {
            let mut c = sc.clone();
            match f {
                0 if sc.knobs.p_spurious > 0 => c.knobs.p_spurious = 0,
                1 if sc.knobs.p_cancel > 0 => c.knobs.p_cancel = 0,
                2 if sc.knobs.p_time > 0 => c.knobs.p_time = 0,
                _ => continue,
            }
            out.push(c);
        }
        if sc.knobs.strategy != 1 || sc.knobs.stick != 950 {
            let mut c = sc.clone();
            c.knobs.strategy = 1;
            c.knobs.stick = 950;
            out.push(c);
        }
        out
    }
    fn shape(&self, sc: &UScenario) -> String {
        let mut s = format!("{:?} |", sc.ctor);
        for (i, a) in sc.actors.iter().enumerate() {
            s.push_str(&format!(" A{}:[{}]", i, a.iter().map(opname).collect::<Vec<_>>().join(",")));
        }
        s.push_str(&format!(" | sites=[{}]", sc.knobs.sites.join(",")));
        s
    }
}
