#!/usr/bin/env python3
"""Sensitivity run for C16: creates a scratch worktree of /repo and a temporary copy of this
crate pointed at it, applies each mutant in turn, rebuilds, runs `check C16 --secs 20` and
replays the minimised replay file; removes worktree, crate copy and target dir at the end.
Usage: run_mutants.py [mutant name ...]   (results under /work/out-pg-mut/<mutant>/)"""
import subprocess, sys, os, json, shutil, re
WT='/work/repo-pg-mut'
HERE=os.path.dirname(os.path.abspath(__file__))
TMP='/work/netsim-pg-mut'
def setup():
    subprocess.check_call(['git','-C','/repo','worktree','add','--detach',WT,'HEAD'])
    shutil.rmtree(TMP,ignore_errors=True); os.makedirs(TMP+'/.cargo')
    shutil.copytree(HERE+'/src',TMP+'/src'); shutil.copy(HERE+'/Cargo.lock',TMP)
    t=open(HERE+'/Cargo.toml').read().replace('path = "/repo/postgres"','path = "%s/postgres"'%WT).replace('path = "/repo"','path = "%s"'%WT)
    open(TMP+'/Cargo.toml','w').write(t)
    c=open(HERE+'/.cargo/config.toml').read()
    c=re.sub(r'target-dir = "[^"]*"','target-dir = "/work/target-pg-mut"',c)
    open(TMP+'/.cargo/config.toml','w').write(c)
def teardown():
    subprocess.call(['git','-C','/repo','worktree','remove','--force',WT])
    shutil.rmtree(TMP,ignore_errors=True); shutil.rmtree('/work/target-pg-mut',ignore_errors=True)
LIB=WT+'/postgres/src/lib.rs'
CFG=WT+'/postgres/src/config.rs'
MOD=WT+'/src/managed/mod.rs'
def rep(path, old, new, count=1):
    s=open(path).read()
    assert s.count(old)>=1, (path, old)
    s=s.replace(old,new) if count==0 else s.replace(old,new,count)
    open(path,'w').write(s)
M={}
def m1():  # cache key ignores types
    rep(LIB,"types: Cow::Owned(types.to_owned()),","types: Cow::Owned(Vec::new()),",0)
    rep(LIB,"types: Cow::Borrowed(types),","types: Cow::Borrowed(&[]),")
M['1_key_ignores_types']=m1
def m2():
    rep(LIB,"""        if removed.is_some() {
            let _ = self.size.fetch_sub(1, Ordering::Relaxed);
        }""","")
M['2_remove_no_size_decrement']=m2
def m3():
    rep(LIB,"self.statement_caches.detach(&object.statement_cache);","let _ = &object;")
M['3_detach_noop']=m3
def m4():
    rep(LIB,"if client.is_closed() {","if false && client.is_closed() {")
M['4_recycle_skips_is_closed']=m4
def m5():
    rep(CFG,'Self::Verified => Some(""),','Self::Verified => Some("SELECT 1"),')
M['5_verified_select_1']=m5
def m6():
    rep(MOD,"self.inner.manager.detach(&mut obj.obj);","let _ = &mut obj;")
M['6_resize_no_detach_D2']=m6
def m7():
    rep(LIB,"""        self.statement_caches
            .attach(&client_wrapper.statement_cache);""","")
M['7_attach_omitted']=m7
def m8():
    rep(CFG,"DISCARD TEMP; \\\n        DISCARD SEQUENCES;\\","DISCARD TEMP;\\")
M['8_clean_script_shortened']=m8
def m9():
    rep(LIB,"Err(e.into())\n","{ let _ = e; Ok(()) }\n")
M['9_failed_check_ignored']=m9
def m10():
    rep(LIB,"match self.get(query, types) {","match self.get(query, types).filter(|_| false) {")
M['10_cache_never_hits']=m10
def m11():  # hit returns statement of same text with other types if exact missing (collision on text only in get)
    rep(LIB,"self.map.read().unwrap().get(&key).map(ToOwned::to_owned)","{ let m = self.map.read().unwrap(); m.get(&key).map(ToOwned::to_owned).or_else(|| m.iter().find(|(k,_)| k.query == key.query).map(|(_,v)| v.clone())) }")
M['11_get_falls_back_to_same_text']=m11
def m12():  # registry clear only clears first cache
    rep(LIB,"""            if let Some(cache) = cache.upgrade() {
                cache.clear();
            }""","""            if let Some(cache) = cache.upgrade() {
                cache.clear();
                break;
            }""")
M['12_registry_clear_first_only']=m12
def m13(): # size not reset on clear
    rep(LIB,"self.size.store(0, Ordering::Relaxed);","")
M['13_clear_keeps_size']=m13

def m14():
    rep(MOD,"self.pool.manager.detach(&mut inner.obj);","let _ = &mut inner;")
M['14_discard_no_detach']=m14
def m15():
    rep(MOD,"self.manager.detach(&mut inner.obj);","let _ = &mut inner;")
M['15_return_over_max_no_detach']=m15
def m16():
    rep(MOD,"self.manager().detach(&mut obj.obj);","")
M['16_retain_no_detach']=m16
which=sys.argv[1:] or list(M)
res={}
setup()
for name in which:
    subprocess.check_call(['git','-C',WT,'checkout','-q','--','.'])
    M[name]()
    b=subprocess.run(['cargo','build','--release'],cwd='/work/netsim-pg-mut',capture_output=True,text=True)
    if b.returncode!=0:
        print(name,'BUILD FAILED'); print(b.stderr[-3000:]); res[name]='build failed'; continue
    out='/work/out-pg-mut/'+name
    shutil.rmtree(out,ignore_errors=True); os.makedirs(out)
    env=dict(os.environ,VERIF_DIR=out)
    r=subprocess.run(['/work/target-pg-mut/release/netsim-pg','check','C16','--secs','20'],env=env,capture_output=True,text=True)
    lines=[l for l in r.stdout.splitlines() if l.startswith(('violation','minimised','VIOLATION','C16 ['))]
    print('=====',name,'exit',r.returncode); print('\n'.join(lines)); print(r.stderr[-500:])
    rp=None
    for l in lines:
        if l.startswith('VIOLATION'): rp=l.split('replay=')[1]
    if rp:
        r2=subprocess.run(['/work/target-pg-mut/release/netsim-pg','replay',rp,'--quiet'],env=env,capture_output=True,text=True)
        print('replay exit',r2.returncode)
    res[name]=r.returncode
    sys.stdout.flush()
teardown()
print(res)
