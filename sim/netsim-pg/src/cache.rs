//! Thread-level half of C16 (engine E1): the statement cache of a client and the manager's
//! cache registry are shared between threads (`StatementCache` is `Sync`, `statement_caches` is
//! reachable from every pool handle), so "size() equals the number of cached keys" and "clear()
//! and remove() reach exactly the clients the manager owns" have to hold for every interleaving
//! of prepares, removes, clears, attaches and detaches on different threads.
//!
//! Actors are virtual threads of the dsim engine. Real code: `deadpool_postgres::{Manager,
//! ClientWrapper, StatementCache, StatementCaches}` and the tokio-postgres client + `Connection`
//! future. Simulated: the transport (`tokio::io::duplex`), a minimal scripted server (start-up,
//! Parse / Describe / Sync, Close, Terminate) and the network pump, which the controller runs
//! after every step (so a reply is delivered one scheduling step after the request was sent).

use std::{
    cell::RefCell,
    collections::{BTreeMap, HashMap},
    future::Future,
    panic::{catch_unwind, AssertUnwindSafe},
    pin::Pin,
    sync::Arc,
    task::{Context, Poll, Wake, Waker},
};

use bytes::{Buf, BytesMut};
use deadpool::managed::Manager as _;
use deadpool_postgres::{ClientWrapper, Connect, Manager, ManagerConfig, RecyclingMethod};
use serde::{Deserialize, Serialize};
use simcore::common::{Harness, Outcome as RunOutcome};
use simcore::rng::Rng;
use tokio::io::{AsyncRead, AsyncWrite, DuplexStream, ReadBuf};
use tokio::task::JoinHandle;
use tokio_postgres::{types::Type, Client as PgClient, Config as PgConfig, Error, NoTls, Statement};

use crate::engine::{
    self, begin_run, drive, end_run, op_boundary, Decision, DriveStats, Knobs, PollEnd, Resume, RunEnd, Sim, SimInfo,
    Violation, World,
};
use crate::trace;

const PROP: &str = "C16";

// ---------------------------------------------------------------------------
// keys
// ---------------------------------------------------------------------------

/// (query index, types index): the number of placeholders identifies the query text and the
/// resolved parameter types identify the types, so `Statement::params()` names the key.
pub const KEYS: [(u8, u8); 6] = [(0, 0), (1, 0), (1, 1), (1, 2), (2, 0), (2, 2)];

fn query(q: u8) -> &'static str {
    match q {
        0 => "SELECT 1",
        1 => "SELECT $1",
        _ => "SELECT $1, $2",
    }
}

fn types(t: u8) -> Vec<Type> {
    match t {
        0 => vec![],
        1 => vec![Type::INT4],
        _ => vec![Type::TEXT],
    }
}

fn resolved(key: u8) -> Vec<Type> {
    let (q, t) = KEYS[key as usize % KEYS.len()];
    let given = types(t);
    (0..q as usize).map(|i| given.get(i).cloned().unwrap_or(Type::INT8)).collect()
}

// ---------------------------------------------------------------------------
// scenario
// ---------------------------------------------------------------------------

#[derive(Clone, Copy, Debug, Serialize, Deserialize, PartialEq, Eq)]
pub enum Target {
    /// one of the clients created up front and shared by every thread
    Shared(u8),
    /// the `i`-th client this thread attached itself (attached or already detached)
    Own(u8),
}

#[derive(Clone, Copy, Debug, Serialize, Deserialize, PartialEq, Eq)]
pub enum COp {
    Prepare { t: Target, key: u8, fail: bool, cancellable: bool },
    Remove { t: Target, key: u8 },
    Clear { t: Target },
    Size { t: Target },
    RegClear,
    RegRemove { key: u8 },
    /// `Manager::create()`: connects and registers the new client's cache
    Attach,
    /// `Manager::detach()` of an own client (what take / discard / release do)
    Detach { i: u8 },
}

#[derive(Clone, Debug, Serialize, Deserialize, PartialEq, Eq)]
pub struct CScenario {
    pub profile: String,
    pub shared: u8,
    pub actors: Vec<Vec<COp>>,
    /// end of run: `statement_caches.clear()` first (registry addressing) instead of counting keys
    pub final_registry_clear: bool,
    pub knobs: Knobs,
    pub sched_seed: u64,
}

// ---------------------------------------------------------------------------
// transport + scripted server
// ---------------------------------------------------------------------------

struct NetConn {
    far: DuplexStream,
    inbuf: BytesMut,
    started: bool,
    closed: bool,
    conn: Option<Pin<Box<dyn Future<Output = Result<(), Error>> + Send>>>,
    stmts: HashMap<String, (String, Vec<u32>)>,
    skip: bool,
    parses: u64,
    /// query texts whose next Parse is answered with an error
    fail_next: Vec<String>,
}

thread_local! {
    static NET: RefCell<Vec<NetConn>> = const { RefCell::new(Vec::new()) };
}

struct Noop;
impl Wake for Noop {
    fn wake(self: Arc<Self>) {}
}

fn put(out: &mut Vec<u8>, tag: u8, body: &[u8]) {
    out.push(tag);
    out.extend_from_slice(&((body.len() as i32 + 4).to_be_bytes()));
    out.extend_from_slice(body);
}
fn cstr(b: &mut Vec<u8>, s: &str) {
    b.extend_from_slice(s.as_bytes());
    b.push(0);
}
fn param_status(out: &mut Vec<u8>, k: &str, v: &str) {
    let mut b = Vec::new();
    cstr(&mut b, k);
    cstr(&mut b, v);
    put(out, b'S', &b);
}
fn error_response(out: &mut Vec<u8>, code: &str, msg: &str) {
    let mut b = Vec::new();
    for (f, v) in [(b'S', "ERROR"), (b'V', "ERROR"), (b'C', code), (b'M', msg)] {
        b.push(f);
        cstr(&mut b, v);
    }
    b.push(0);
    put(out, b'E', &b);
}
fn take_cstr(p: &mut &[u8]) -> String {
    let n = p.iter().position(|b| *b == 0).unwrap_or(p.len());
    let s = String::from_utf8_lossy(&p[..n]).into_owned();
    *p = &p[(n + 1).min(p.len())..];
    s
}

impl NetConn {
    fn handle(&mut self, id: usize, tag: u8, mut p: &[u8], out: &mut Vec<u8>) {
        match tag {
            b'P' => {
                let name = take_cstr(&mut p);
                let sql = take_cstr(&mut p);
                let n = if p.len() >= 2 { i16::from_be_bytes([p[0], p[1]]) as usize } else { 0 };
                let mut given = Vec::new();
                for i in 0..n {
                    let o = 2 + i * 4;
                    if p.len() >= o + 4 {
                        given.push(u32::from_be_bytes([p[o], p[o + 1], p[o + 2], p[o + 3]]));
                    }
                }
                if self.skip {
                    return;
                }
                self.parses += 1;
                if let Some(k) = self.fail_next.iter().position(|s| *s == sql) {
                    let _ = self.fail_next.remove(k);
                    error_response(out, "XX000", "injected failure");
                    self.skip = true;
                    return;
                }
                let holes = sql.matches('$').count();
                let oids: Vec<u32> = (0..holes)
                    .map(|i| match given.get(i) {
                        Some(o) if *o != 0 => *o,
                        _ => Type::INT8.oid(),
                    })
                    .collect();
                let _ = self.stmts.insert(name, (sql, oids));
                put(out, b'1', &[]);
            }
            b'D' => {
                if self.skip {
                    return;
                }
                p = &p[1.min(p.len())..];
                let name = take_cstr(&mut p);
                match self.stmts.get(&name) {
                    Some((_, oids)) => {
                        let mut b = Vec::new();
                        b.extend_from_slice(&(oids.len() as i16).to_be_bytes());
                        for o in oids {
                            b.extend_from_slice(&o.to_be_bytes());
                        }
                        put(out, b't', &b);
                        put(out, b'n', &[]);
                    }
                    None => {
                        error_response(out, "26000", "prepared statement does not exist");
                        self.skip = true;
                    }
                }
            }
            b'C' => {
                if self.skip {
                    return;
                }
                p = &p[1.min(p.len())..];
                let name = take_cstr(&mut p);
                let _ = self.stmts.remove(&name);
                put(out, b'3', &[]);
            }
            b'S' => {
                self.skip = false;
                put(out, b'Z', b"I");
            }
            b'X' => {
                self.closed = true;
            }
            _ => {
                if !self.skip {
                    error_response(out, "08P01", "unsupported frontend message");
                    self.skip = true;
                }
            }
        }
        let _ = id;
    }

    /// Reads whatever the client has sent, answers it. Returns whether anything happened.
    fn serve(&mut self, id: usize, cx: &mut Context<'_>) -> bool {
        if self.closed {
            return false;
        }
        let mut progress = false;
        let mut tmp = [0u8; 4096];
        loop {
            let mut rb = ReadBuf::new(&mut tmp);
            match Pin::new(&mut self.far).poll_read(cx, &mut rb) {
                Poll::Ready(Ok(())) => {
                    if rb.filled().is_empty() {
                        self.closed = true;
                        break;
                    }
                    self.inbuf.extend_from_slice(rb.filled());
                    progress = true;
                }
                Poll::Ready(Err(_)) => {
                    self.closed = true;
                    break;
                }
                Poll::Pending => break,
            }
        }
        let mut out: Vec<u8> = Vec::new();
        loop {
            if !self.started {
                if self.inbuf.len() < 4 {
                    break;
                }
                let len = i32::from_be_bytes([self.inbuf[0], self.inbuf[1], self.inbuf[2], self.inbuf[3]]) as usize;
                if self.inbuf.len() < len {
                    break;
                }
                self.inbuf.advance(len);
                self.started = true;
                put(&mut out, b'R', &0i32.to_be_bytes());
                param_status(&mut out, "client_encoding", "UTF8");
                param_status(&mut out, "server_version", "16.0");
                let mut k = Vec::new();
                k.extend_from_slice(&(id as i32 + 1).to_be_bytes());
                k.extend_from_slice(&0x5ec2e7i32.to_be_bytes());
                put(&mut out, b'K', &k);
                put(&mut out, b'Z', b"I");
            } else {
                if self.inbuf.len() < 5 {
                    break;
                }
                let len = i32::from_be_bytes([self.inbuf[1], self.inbuf[2], self.inbuf[3], self.inbuf[4]]) as usize;
                if self.inbuf.len() < 1 + len {
                    break;
                }
                let tag = self.inbuf[0];
                let payload = self.inbuf.split_to(1 + len);
                self.handle(id, tag, &payload[5..], &mut out);
            }
        }
        if !out.is_empty() && !self.closed {
            let mut off = 0;
            while off < out.len() {
                match Pin::new(&mut self.far).poll_write(cx, &out[off..]) {
                    Poll::Ready(Ok(n)) if n > 0 => off += n,
                    _ => {
                        self.closed = true;
                        break;
                    }
                }
            }
            progress = true;
        }
        progress
    }
}

/// One round of the network: every `Connection` future flushes requests, the server answers,
/// the `Connection` delivers the answers (waking the threads that wait for them).
fn pump() {
    engine::no_yield(|| {
        let waker = Waker::from(Arc::new(Noop));
        let mut cx = Context::from_waker(&waker);
        NET.with(|n| {
            let mut n = n.borrow_mut();
            for (id, c) in n.iter_mut().enumerate() {
                for _ in 0..6 {
                    if let Some(f) = c.conn.as_mut() {
                        if f.as_mut().poll(&mut cx).is_ready() {
                            c.conn = None;
                        }
                    }
                    let progress = c.serve(id, &mut cx);
                    if let Some(f) = c.conn.as_mut() {
                        if f.as_mut().poll(&mut cx).is_ready() {
                            c.conn = None;
                        }
                    }
                    if !progress {
                        break;
                    }
                }
            }
        })
    })
}

struct SimConnect;

impl Connect for SimConnect {
    fn connect(
        &self,
        pg_config: &PgConfig,
    ) -> Pin<Box<dyn Future<Output = Result<(PgClient, JoinHandle<()>), Error>> + Send + '_>> {
        let cfg = pg_config.clone();
        Box::pin(async move {
            let (near, far) = tokio::io::duplex(64 * 1024);
            let id = NET.with(|n| {
                let mut n = n.borrow_mut();
                n.push(NetConn {
                    far,
                    inbuf: BytesMut::with_capacity(256),
                    started: false,
                    closed: false,
                    conn: None,
                    stmts: HashMap::new(),
                    skip: false,
                    parses: 0,
                    fail_next: Vec::new(),
                });
                n.len() - 1
            });
            let (client, connection) = cfg.connect_raw(near, NoTls).await?;
            NET.with(|n| n.borrow_mut()[id].conn = Some(Box::pin(connection)));
            // the Connection future is driven by the network pump; the handle ClientWrapper wants
            // belongs to a task that has nothing to do
            let task = tokio::spawn(async {});
            Ok((client, task))
        })
    }
}

/// Which server-side connection a client talks to (BackendKeyData.process_id - 1).
fn conn_of(c: &PgClient) -> usize {
    struct Capture(Vec<u8>);
    impl AsyncRead for Capture {
        fn poll_read(self: Pin<&mut Self>, _: &mut Context<'_>, _: &mut ReadBuf<'_>) -> Poll<std::io::Result<()>> {
            Poll::Ready(Ok(()))
        }
    }
    impl AsyncWrite for Capture {
        fn poll_write(mut self: Pin<&mut Self>, _: &mut Context<'_>, buf: &[u8]) -> Poll<std::io::Result<usize>> {
            self.0.extend_from_slice(buf);
            Poll::Ready(Ok(buf.len()))
        }
        fn poll_flush(self: Pin<&mut Self>, _: &mut Context<'_>) -> Poll<std::io::Result<()>> {
            Poll::Ready(Ok(()))
        }
        fn poll_shutdown(self: Pin<&mut Self>, _: &mut Context<'_>) -> Poll<std::io::Result<()>> {
            Poll::Ready(Ok(()))
        }
    }
    let mut cap = Capture(Vec::with_capacity(16));
    let tok = c.cancel_token();
    let mut fut = Box::pin(tok.cancel_query_raw(&mut cap, NoTls));
    let r = engine::poll_once(fut.as_mut());
    drop(fut);
    assert!(matches!(r, Poll::Ready(Ok(()))), "cancel_query_raw on the capture stream did not complete");
    let pid = i32::from_be_bytes([cap.0[8], cap.0[9], cap.0[10], cap.0[11]]);
    (pid - 1) as usize
}

// ---------------------------------------------------------------------------
// world
// ---------------------------------------------------------------------------

pub struct Own {
    pub id: u32,
    pub cw: ClientWrapper,
    pub attached: bool,
    /// keys prepared after `Manager::detach()` had returned (and not removed by the owner since):
    /// no registry operation may touch them, whenever it started
    pub kept: Vec<u8>,
}

pub struct CWorld {
    pub sc: CScenario,
    pub mgr: Arc<Manager>,
    pub shared: Vec<Arc<ClientWrapper>>,
    pub own: Vec<Vec<Own>>,
    pub next_id: u32,
    pub draining: bool,
    pub cur_cancellable: Vec<bool>,
    pub pending_violation: Option<Violation>,
    pub faults: BTreeMap<String, u64>,
    pub probes: BTreeMap<String, u64>,
    pub ops: u64,
    pub inserts: u64,
}

thread_local! {
    static CW: RefCell<Option<CWorld>> = const { RefCell::new(None) };
}

fn with_c<R>(f: impl FnOnce(&mut CWorld) -> R) -> R {
    engine::no_yield(|| CW.with(|c| f(c.borrow_mut().as_mut().expect("no cache world"))))
}

impl CWorld {
    fn probe(&mut self, k: &str) {
        *self.probes.entry(k.to_string()).or_insert(0) += 1;
    }
    fn fault(&mut self, k: &str) {
        *self.faults.entry(k.to_string()).or_insert(0) += 1;
    }
    fn violate(&mut self, clause: &str, d: String) {
        if self.pending_violation.is_none() {
            self.pending_violation = Some(engine::violation(PROP, clause, d));
        }
    }
}

/// What an operation works on: a shared client, or an own client taken out of the world for the
/// duration of the call (nobody else can name it).
enum Cl {
    Shared(Arc<ClientWrapper>),
    Own(Own, usize),
}

impl Cl {
    fn cw(&self) -> &ClientWrapper {
        match self {
            Cl::Shared(a) => a,
            Cl::Own(o, _) => &o.cw,
        }
    }
}

fn pick(actor: usize, t: Target) -> Option<Cl> {
    with_c(|w| match t {
        Target::Shared(i) => {
            if w.shared.is_empty() {
                None
            } else {
                Some(Cl::Shared(w.shared[i as usize % w.shared.len()].clone()))
            }
        }
        Target::Own(i) => {
            let l = &mut w.own[actor];
            if l.is_empty() {
                None
            } else {
                let k = i as usize % l.len();
                Some(Cl::Own(l.remove(k), k))
            }
        }
    })
}

fn put_back(actor: usize, cl: Cl) {
    if let Cl::Own(o, k) = cl {
        with_c(|w| {
            let l = &mut w.own[actor];
            let k = k.min(l.len());
            l.insert(k, o);
        });
    }
}

fn panic_msg() -> String {
    engine::take_last_panic().unwrap_or_else(|| "<unknown>".into())
}

fn run_op(actor: usize, op: COp) {
    with_c(|w| w.ops += 1);
    match op {
        COp::Prepare { t, key, fail, cancellable } => {
            let Some(cl) = pick(actor, t) else { return };
            let (q, ty) = KEYS[key as usize % KEYS.len()];
            let tys = types(ty);
            let conn = conn_of(cl.cw());
            if fail {
                NET.with(|n| n.borrow_mut()[conn].fail_next.push(query(q).to_string()));
                with_c(|w| w.fault("server_error_on_parse_armed"));
            }
            with_c(|w| w.cur_cancellable[actor] = cancellable);
            trace!("t{} prepare key {} on conn {} (fail={})", actor, key, conn, fail);
            engine::log_event(&[400, actor as u64, key as u64, conn as u64]);
            let parses0 = NET.with(|n| n.borrow()[conn].parses);
            let mut st = DriveStats::default();
            let end = {
                let cw = cl.cw();
                if tys.is_empty() && key % 2 == 0 {
                    drive(cw.prepare_cached(query(q)), &mut st)
                } else {
                    drive(cw.prepare_typed_cached(query(q), &tys), &mut st)
                }
            };
            let parses1 = NET.with(|n| n.borrow()[conn].parses);
            if fail {
                // an unused fault must not hit a later prepare
                NET.with(|n| {
                    let mut n = n.borrow_mut();
                    if let Some(k) = n[conn].fail_next.iter().position(|s| *s == query(q)) {
                        let _ = n[conn].fail_next.remove(k);
                    }
                });
            }
            let prepared_ok = matches!(end, PollEnd::Ready(Ok(_)));
            with_c(|w| {
                w.cur_cancellable[actor] = false;
                match end {
                    PollEnd::Ready(Ok(stmt)) => {
                        let want = resolved(key);
                        if stmt.params() != want.as_slice() {
                            w.violate(
                                "statement_matches_key",
                                format!("prepare of {:?} with types {:?} returned a statement with parameters {:?}", query(q), tys, stmt.params()),
                            );
                        }
                        if st.pendings == 0 {
                            w.probe("prepare_hit");
                        } else {
                            w.probe("prepare_miss");
                            w.inserts += 1;
                        }
                        let _ = (parses0, parses1);
                        drop::<Statement>(stmt);
                    }
                    PollEnd::Ready(Err(_)) => w.fault("prepare_failed"),
                    PollEnd::Cancelled => w.fault("prepare_cancelled"),
                    PollEnd::Panicked(_) => {
                        let m = panic_msg();
                        w.violate("unexpected_panic", format!("prepare_cached panicked: {m}"));
                    }
                }
            });
            let mut cl = cl;
            if let (Cl::Own(o, _), true) = (&mut cl, prepared_ok) {
                let k = key % KEYS.len() as u8;
                if !o.attached && !o.kept.contains(&k) {
                    o.kept.push(k);
                }
            }
            put_back(actor, cl);
        }
        COp::Remove { t, key } => {
            let Some(cl) = pick(actor, t) else { return };
            let (q, ty) = KEYS[key as usize % KEYS.len()];
            engine::log_event(&[401, actor as u64, key as u64]);
            let r = catch_unwind(AssertUnwindSafe(|| cl.cw().statement_cache.remove(query(q), &types(ty))));
            with_c(|w| match r {
                Ok(Some(stmt)) => {
                    if stmt.params() != resolved(key).as_slice() {
                        w.violate("statement_matches_key", format!("remove of key {key} returned a statement with parameters {:?}", stmt.params()));
                    }
                    w.probe("remove_found");
                }
                Ok(None) => w.probe("remove_absent"),
                Err(_) => {
                    let m = panic_msg();
                    w.violate("unexpected_panic", format!("StatementCache::remove panicked: {m}"));
                }
            });
            let mut cl = cl;
            if let Cl::Own(o, _) = &mut cl {
                let k = key % KEYS.len() as u8;
                o.kept.retain(|x| *x != k);
            }
            put_back(actor, cl);
        }
        COp::Clear { t } => {
            let Some(cl) = pick(actor, t) else { return };
            engine::log_event(&[402, actor as u64]);
            let r = catch_unwind(AssertUnwindSafe(|| cl.cw().statement_cache.clear()));
            if r.is_err() {
                with_c(|w| {
                    let m = panic_msg();
                    w.violate("unexpected_panic", format!("StatementCache::clear panicked: {m}"));
                });
            }
            let mut cl = cl;
            if let Cl::Own(o, _) = &mut cl {
                o.kept.clear();
            }
            put_back(actor, cl);
        }
        COp::Size { t } => {
            let Some(cl) = pick(actor, t) else { return };
            let n = cl.cw().statement_cache.size();
            engine::log_event(&[403, actor as u64, n as u64]);
            with_c(|w| {
                if n > KEYS.len() {
                    w.violate("size_never_exceeds_keys", format!("size() = {n} although only {} different keys are ever prepared", KEYS.len()));
                }
            });
            put_back(actor, cl);
        }
        COp::RegClear => {
            let mgr = with_c(|w| w.mgr.clone());
            engine::log_event(&[404, actor as u64]);
            if catch_unwind(AssertUnwindSafe(|| mgr.statement_caches.clear())).is_err() {
                with_c(|w| {
                    let m = panic_msg();
                    w.violate("unexpected_panic", format!("StatementCaches::clear panicked: {m}"));
                });
            }
        }
        COp::RegRemove { key } => {
            let mgr = with_c(|w| w.mgr.clone());
            let (q, ty) = KEYS[key as usize % KEYS.len()];
            engine::log_event(&[405, actor as u64, key as u64]);
            if catch_unwind(AssertUnwindSafe(|| mgr.statement_caches.remove(query(q), &types(ty)))).is_err() {
                with_c(|w| {
                    let m = panic_msg();
                    w.violate("unexpected_panic", format!("StatementCaches::remove panicked: {m}"));
                });
            }
        }
        COp::Attach => {
            let (mgr, n) = with_c(|w| (w.mgr.clone(), w.own[actor].len()));
            if n >= 3 {
                return;
            }
            engine::log_event(&[406, actor as u64]);
            let mut st = DriveStats::default();
            let end = drive(mgr.create(), &mut st);
            with_c(|w| match end {
                PollEnd::Ready(Ok(cw)) => {
                    let id = w.next_id;
                    w.next_id += 1;
                    w.own[actor].push(Own { id, cw, attached: true, kept: Vec::new() });
                    w.probe("attached_in_run");
                }
                PollEnd::Ready(Err(e)) => w.violate("harness", format!("scripted connect failed: {e}")),
                PollEnd::Cancelled => w.fault("create_cancelled"),
                PollEnd::Panicked(_) => {
                    let m = panic_msg();
                    w.violate("unexpected_panic", format!("Manager::create panicked: {m}"));
                }
            });
        }
        COp::Detach { i } => {
            let Some(cl) = pick(actor, Target::Own(i)) else { return };
            let Cl::Own(mut o, k) = cl else { return };
            if o.attached {
                let mgr = with_c(|w| w.mgr.clone());
                engine::log_event(&[407, actor as u64, o.id as u64]);
                if catch_unwind(AssertUnwindSafe(|| mgr.detach(&mut o.cw))).is_err() {
                    with_c(|w| {
                        let m = panic_msg();
                        w.violate("unexpected_panic", format!("Manager::detach panicked: {m}"));
                    });
                }
                o.attached = false;
                with_c(|w| w.probe("detached_in_run"));
            }
            put_back(actor, Cl::Own(o, k));
        }
    }
}

pub struct CHandle;

impl World for CHandle {
    fn actors(&self) -> usize {
        with_c(|w| w.sc.actors.len())
    }
    fn actor_body(&mut self, i: usize) -> Box<dyn FnOnce()> {
        let ops = with_c(|w| w.sc.actors[i].clone());
        Box::new(move || {
            for op in ops {
                op_boundary();
                if with_c(|w| w.draining) {
                    break;
                }
                run_op(i, op);
            }
        })
    }
    fn openable_gates(&mut self, _out: &mut Vec<u32>) {}
    fn open_gate(&mut self, _g: u32) {}
    fn cancellable(&mut self, actor: usize) -> bool {
        with_c(|w| w.draining || w.cur_cancellable.get(actor).copied().unwrap_or(false))
    }
    fn after_step(&mut self, _info: &SimInfo) -> Option<Violation> {
        pump();
        with_c(|w| w.pending_violation.take())
    }
    fn quiescent(&mut self, _info: &SimInfo) -> Option<Violation> {
        pump();
        with_c(|w| w.pending_violation.take())
    }
}

/// Runs `f` on the controller; a lock that is never released shows up as the engine's
/// "controller would block" panic and is reported as a deadlock.
fn guarded_ctl<R>(what: &str, f: impl FnOnce() -> R) -> Result<R, Violation> {
    match catch_unwind(AssertUnwindSafe(f)) {
        Ok(r) => Ok(r),
        Err(p) => {
            let msg = p
                .downcast_ref::<String>()
                .cloned()
                .or_else(|| p.downcast_ref::<&str>().map(|s| s.to_string()))
                .unwrap_or_default();
            if msg.contains("controller would block on a lock") {
                Err(engine::violation(PROP, "deadlock", format!("{what} blocks on a lock that no running thread holds")))
            } else {
                Err(engine::violation(PROP, "unexpected_panic", format!("{what} panicked: {msg}")))
            }
        }
    }
}

fn count_keys(cw: &ClientWrapper) -> Result<usize, Violation> {
    let mut n = 0;
    for (k, (q, ty)) in KEYS.iter().enumerate() {
        let r = guarded_ctl("StatementCache::remove", || cw.statement_cache.remove(query(*q), &types(*ty)))?;
        if let Some(stmt) = r {
            if stmt.params() != resolved(k as u8).as_slice() {
                return Err(engine::violation(
                    PROP,
                    "statement_matches_key",
                    format!("the statement cached under key {k} has parameters {:?}", stmt.params()),
                ));
            }
            n += 1;
        }
    }
    Ok(n)
}

/// Everything is at rest: compare `size()` with the keys that are really there, client by client.
fn final_checks(w: &mut CWorld) -> Option<Violation> {
    let mgr = w.mgr.clone();
    let mut clients: Vec<(String, &ClientWrapper, bool)> = Vec::new();
    for (i, c) in w.shared.iter().enumerate() {
        clients.push((format!("shared client {i}"), c, true));
    }
    for (a, l) in w.own.iter().enumerate() {
        for o in l.iter() {
            clients.push((format!("client #{} of thread {a} ({})", o.id, if o.attached { "attached" } else { "detached" }), &o.cw, o.attached));
        }
    }
    // what was prepared on a client after the manager had let go of it is out of the registry's reach
    for (a, l) in w.own.iter().enumerate() {
        for o in l.iter().filter(|o| !o.attached) {
            for k in o.kept.iter() {
                let (q, ty) = KEYS[*k as usize % KEYS.len()];
                // a hit costs no round trip: the future is ready at its first poll
                let tys = types(ty);
                let mut fut = Box::pin(o.cw.statement_cache.prepare_typed(&o.cw, query(q), &tys));
                let hit = match guarded_ctl("StatementCache::prepare_typed", || engine::poll_once(fut.as_mut())) {
                    Ok(p) => p.is_ready(),
                    Err(v) => return Some(v),
                };
                drop(fut);
                if !hit {
                    return Some(engine::violation(
                        PROP,
                        "registry_spares_detached_clients",
                        format!(
                            "client #{} of thread {a}: key {k} was prepared after Manager::detach() had returned and nobody removed it since, but it is no longer cached",
                            o.id
                        ),
                    ));
                }
            }
        }
    }
    let mut sizes = Vec::new();
    for (name, cw, _) in clients.iter() {
        match guarded_ctl("StatementCache::size", || cw.statement_cache.size()) {
            Ok(s) => {
                if s > KEYS.len() {
                    return Some(engine::violation(PROP, "size_equals_cached_keys", format!("{name}: size() = {s} at rest, only {} different keys exist", KEYS.len())));
                }
                sizes.push(s)
            }
            Err(v) => return Some(v),
        }
    }
    let reg = w.sc.final_registry_clear;
    if reg {
        if let Err(v) = guarded_ctl("StatementCaches::clear", || mgr.statement_caches.clear()) {
            return Some(v);
        }
    }
    let mut checked = 0;
    for (i, (name, cw, attached)) in clients.iter().enumerate() {
        let keys = match count_keys(cw) {
            Ok(n) => n,
            Err(v) => return Some(v),
        };
        if reg && *attached {
            if keys != 0 {
                return Some(engine::violation(
                    PROP,
                    "registry_clear_reaches_owned_clients",
                    format!("{name}: {keys} statement(s) still cached after statement_caches.clear() at rest"),
                ));
            }
        } else if keys != sizes[i] {
            let why = if reg { " (statement_caches.clear() ran in between and must not reach it)" } else { "" };
            return Some(engine::violation(
                PROP,
                if reg { "registry_spares_detached_clients" } else { "size_equals_cached_keys" },
                format!("{name}: size() = {} at rest but {keys} key(s) are cached{why}", sizes[i]),
            ));
        }
        match guarded_ctl("StatementCache::size", || cw.statement_cache.size()) {
            Ok(0) => {}
            Ok(s) => {
                return Some(engine::violation(
                    PROP,
                    "size_equals_cached_keys",
                    format!("{name}: every key removed but size() = {s}"),
                ))
            }
            Err(v) => return Some(v),
        }
        checked += 1;
    }
    for _ in 0..checked {
        w.probe("client_cache_counted_at_rest");
    }
    None
}

fn setup_client(mgr: &Manager) -> Result<ClientWrapper, String> {
    let mut fut = Box::pin(mgr.create());
    for _ in 0..64 {
        match engine::poll_once(fut.as_mut()) {
            Poll::Ready(Ok(c)) => return Ok(c),
            Poll::Ready(Err(e)) => return Err(format!("scripted connect failed: {e}")),
            Poll::Pending => pump(),
        }
    }
    Err("scripted connect did not finish".into())
}

pub fn run_cscenario(sc: &CScenario, replay: Option<Vec<Decision>>, trace: bool) -> RunOutcome {
    let n = sc.actors.len();
    begin_run(&sc.knobs, n, trace, 256 * 1024);
    let mut sim = Sim::new(sc.sched_seed, sc.knobs.clone(), replay);
    let handle = sim.clock.handle();
    let guard = handle.enter();
    NET.with(|x| x.borrow_mut().clear());
    let mut pg = PgConfig::new();
    let _ = pg.user("sim").dbname("sim");
    let mgr = Arc::new(Manager::from_connect(pg, SimConnect, ManagerConfig { recycling_method: RecyclingMethod::Fast }));
    let mut violation = None;
    let mut shared = Vec::new();
    for _ in 0..sc.shared {
        match setup_client(&mgr) {
            Ok(c) => shared.push(Arc::new(c)),
            Err(e) => violation = Some(engine::violation("HARNESS", "setup", e)),
        }
    }
    CW.with(|c| {
        *c.borrow_mut() = Some(CWorld {
            sc: sc.clone(),
            mgr,
            shared,
            own: (0..n).map(|_| Vec::new()).collect(),
            next_id: 0,
            draining: false,
            cur_cancellable: vec![false; n],
            pending_violation: None,
            faults: BTreeMap::new(),
            probes: BTreeMap::new(),
            ops: 0,
            inserts: 0,
        })
    });
    let mut h = CHandle;
    for i in 0..n {
        let b = h.actor_body(i);
        let _ = sim.add_actor(b);
    }
    let mut diverged = None;
    let mut step_cap_hit = false;
    let mut stuck = false;
    if violation.is_none() {
        match sim.run(&mut h) {
            RunEnd::Finished => {}
            RunEnd::Violation(v) => violation = Some(v),
            RunEnd::StepCap => step_cap_hit = true,
            RunEnd::Diverged(e) => diverged = Some(e),
            RunEnd::Deadlock(d) => {
                stuck = true;
                violation = Some(engine::violation(PROP, "deadlock", format!("no thread can move: {d} wait for a lock that is never released")))
            }
        }
    }
    let main_len = sim.decisions.len();
    // epilogue: cancel what is pending, run every thread to its end
    with_c(|w| w.draining = true);
    let mut drained = false;
    if !stuck {
        for _ in 0..64 {
            let _ = sim.settle(&mut h, 20_000);
            let pending = sim.pending_actors();
            if pending.is_empty() {
                drained = true;
                break;
            }
            for a in pending {
                let _ = sim.resume(a, Resume::Cancel);
            }
        }
    }
    if violation.is_none() && diverged.is_none() {
        violation = with_c(|w| w.pending_violation.take());
        if violation.is_none() && (!drained || step_cap_hit) {
            violation = Some(engine::violation(PROP, "no_progress", "operations could not be completed".into()));
        }
        if violation.is_none() {
            violation = with_c(final_checks);
        }
    }
    let mut w = CW.with(|c| c.borrow_mut().take()).unwrap();
    let stats = sim.stats.clone();
    let mut decisions = sim.decisions.clone();
    decisions.truncate(main_len);
    let mut faults = w.faults.clone();
    for (k, v) in [("controller_cancelled_future", stats.cancels), ("spurious_poll", stats.spurious), ("lock_contention_yield", stats.lock_busy)] {
        if v > 0 {
            *faults.entry(k.to_string()).or_insert(0) += v;
        }
    }
    let probes = w.probes.clone();
    let nontrivial = stats.switches > 0 && n > 1 && w.inserts > 0;
    let ops = w.ops;
    // tear down: clients first (a stuck lock is leaked, not waited for)
    if stuck {
        std::mem::forget(std::mem::take(&mut w.shared));
        std::mem::forget(std::mem::take(&mut w.own));
    } else {
        let own = std::mem::take(&mut w.own);
        let shared = std::mem::take(&mut w.shared);
        let _ = catch_unwind(AssertUnwindSafe(move || {
            drop(own);
            drop(shared);
        }));
        pump();
    }
    drop(w);
    sim.abandon_unfinished();
    NET.with(|x| {
        let v = std::mem::take(&mut *x.borrow_mut());
        let _ = catch_unwind(AssertUnwindSafe(move || drop(v)));
    });
    drop(guard);
    let virtual_ms = sim.clock.advanced_total_ms;
    drop(sim);
    let (log_hash, trace) = end_run();
    RunOutcome {
        violation,
        diverged,
        decisions,
        log_hash,
        trace,
        steps: stats.steps,
        switches: stats.switches,
        virtual_ms,
        ops,
        nontrivial,
        ileave: stats.interleaving_hash,
        faults,
        probes,
        states: Vec::new(),
        step_cap_hit,
        switch_pairs: stats.switch_pairs.iter().copied().collect(),
    }
}

// ---------------------------------------------------------------------------
// generator / harness
// ---------------------------------------------------------------------------

const PG_SITES: &[&str] = &[
    "pg.cache.pre_read",
    "pg.cache.pre_write",
    "pg.cache.post_unlock",
    "pg.cache.size.load",
    "pg.cache.size.store",
    "pg.cache.size.sub",
    "pg.cache.size.add",
    "pg.caches.pre_lock",
    "pg.caches.post_unlock",
];

fn gen_target(rng: &mut Rng, shared: u8) -> Target {
    if shared > 0 && rng.below(100) < 70 {
        Target::Shared(rng.below(shared as usize) as u8)
    } else {
        Target::Own(rng.below(2) as u8)
    }
}

pub fn generate(rng: &mut Rng, thorough: bool) -> CScenario {
    let shared = *rng.pick(&[1u8, 1, 1, 2]);
    let n_actors = rng.range(2, if thorough { 4 } else { 3 });
    // few keys per run: the interesting races are between operations on the same key
    let nk = rng.range(1, 3);
    let keys: Vec<u8> = (0..nk).map(|_| rng.below(KEYS.len()) as u8).collect();
    let mut actors = Vec::new();
    for _ in 0..n_actors {
        let n_ops = rng.range(1, if thorough { 8 } else { 5 });
        let mut ops = Vec::new();
        for _ in 0..n_ops {
            let key = *rng.pick(&keys);
            let op = match rng.weighted(&[40, 12, 14, 6, 10, 5, 7, 6]) {
                0 => COp::Prepare { t: gen_target(rng, shared), key, fail: rng.below(100) < 8, cancellable: rng.below(100) < 25 },
                1 => COp::Remove { t: gen_target(rng, shared), key },
                2 => COp::Clear { t: gen_target(rng, shared) },
                3 => COp::Size { t: gen_target(rng, shared) },
                4 => COp::RegClear,
                5 => COp::RegRemove { key },
                6 => COp::Attach,
                _ => COp::Detach { i: rng.below(2) as u8 },
            };
            ops.push(op);
        }
        actors.push(ops);
    }
    let mut sites = Vec::new();
    let p = *rng.pick(&[300u32, 600, 1000]);
    for s in PG_SITES {
        if rng.permille(p) {
            sites.push(s.to_string());
        }
    }
    let knobs = Knobs {
        sites,
        strategy: *rng.pick(&[0u8, 1, 1, 2]),
        stick: rng.range(500, 950) as u32,
        pct_depth: rng.range(1, 3) as u8,
        p_env: *rng.pick(&[50u32, 150, 300]),
        p_time: 0,
        p_spurious: *rng.pick(&[0u32, 0, 30, 150]),
        p_cancel: *rng.pick(&[0u32, 100, 300]),
        step_cap: 20_000,
    };
    CScenario {
        profile: PROP.into(),
        shared,
        actors,
        final_registry_clear: rng.below(100) < 35,
        knobs,
        sched_seed: rng.next(),
    }
}

pub struct PgCache;

impl Harness for PgCache {
    type Sc = CScenario;
    fn name(&self) -> &'static str {
        "dsim-pgcache"
    }
    fn generate(&self, rng: &mut Rng, _profile: &str, thorough: bool) -> CScenario {
        generate(rng, thorough)
    }
    fn run(&self, sc: &CScenario, replay: Option<Vec<Decision>>, trace: bool) -> RunOutcome {
        run_cscenario(sc, replay, trace)
    }
    fn set_sched_seed(&self, sc: &mut CScenario, seed: u64) {
        sc.sched_seed = seed;
    }
    fn shrink_candidates(&self, sc: &CScenario) -> Vec<CScenario> {
        let mut out = Vec::new();
        if sc.actors.len() > 1 {
            for i in 0..sc.actors.len() {
                let mut c = sc.clone();
                let _ = c.actors.remove(i);
                out.push(c);
            }
        }
        for i in 0..sc.actors.len() {
            for k in (0..sc.actors[i].len()).rev() {
                let mut c = sc.clone();
                let _ = c.actors[i].remove(k);
                if c.actors[i].is_empty() && c.actors.len() > 1 {
                    let _ = c.actors.remove(i);
                }
                out.push(c);
            }
        }
        for i in 0..sc.actors.len() {
            for k in 0..sc.actors[i].len() {
                if let COp::Prepare { t, key, fail, cancellable } = sc.actors[i][k] {
                    if fail {
                        let mut c = sc.clone();
                        c.actors[i][k] = COp::Prepare { t, key, fail: false, cancellable };
                        out.push(c);
                    }
                    if cancellable {
                        let mut c = sc.clone();
                        c.actors[i][k] = COp::Prepare { t, key, fail, cancellable: false };
                        out.push(c);
                    }
                    if key != 0 {
                        let mut c = sc.clone();
                        c.actors[i][k] = COp::Prepare { t, key: 0, fail, cancellable };
                        out.push(c);
                    }
                }
            }
        }
        if sc.shared > 1 {
            let mut c = sc.clone();
            c.shared = 1;
            out.push(c);
        }
        if sc.final_registry_clear {
            let mut c = sc.clone();
            c.final_registry_clear = false;
            out.push(c);
        }
        if !sc.knobs.sites.is_empty() {
            let mut c = sc.clone();
            c.knobs.sites.clear();
            out.push(c);
            for i in 0..sc.knobs.sites.len() {
                let mut c = sc.clone();
                let _ = c.knobs.sites.remove(i);
                out.push(c);
            }
        }
        if sc.knobs.p_cancel > 0 || sc.knobs.p_spurious > 0 {
            let mut c = sc.clone();
            c.knobs.p_cancel = 0;
            c.knobs.p_spurious = 0;
            out.push(c);
        }
        if sc.knobs.strategy != 1 || sc.knobs.stick != 950 {
            let mut c = sc.clone();
            c.knobs.strategy = 1;
            c.knobs.stick = 950;
            out.push(c);
        }
        out
    }
    fn shape(&self, sc: &CScenario) -> String {
        let tg = |t: &Target| match t {
            Target::Shared(i) => format!("s{i}"),
            Target::Own(i) => format!("own{i}"),
        };
        let mut s = format!("thread-level cache: shared clients={} final_registry_clear={}", sc.shared, sc.final_registry_clear);
        for (i, a) in sc.actors.iter().enumerate() {
            let names: Vec<String> = a
                .iter()
                .map(|o| match o {
                    COp::Prepare { t, key, fail, cancellable } => {
                        format!("Prepare({},k{}){}{}", tg(t), key, if *fail { "!err" } else { "" }, if *cancellable { "+canc" } else { "" })
                    }
                    COp::Remove { t, key } => format!("Remove({},k{})", tg(t), key),
                    COp::Clear { t } => format!("Clear({})", tg(t)),
                    COp::Size { t } => format!("Size({})", tg(t)),
                    COp::RegClear => "RegClear".into(),
                    COp::RegRemove { key } => format!("RegRemove(k{key})"),
                    COp::Attach => "Attach".into(),
                    COp::Detach { i } => format!("Detach(own{i})"),
                })
                .collect();
            s.push_str(&format!(" T{}:[{}]", i, names.join(",")));
        }
        s.push_str(&format!(" | sites=[{}]", sc.knobs.sites.join(",")));
        s
    }
}
