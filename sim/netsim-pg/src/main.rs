//! netsim-pg — deterministic simulation (engine E2 "netsim") of deadpool-postgres over an
//! in-memory transport with a scripted PostgreSQL server and fault injection. Decides C16.
//!
//!   netsim-pg check C16 [--tier quick|thorough] [--secs S] [--runs N] [--workers N]
//!   netsim-pg replay <file> [--quiet]
//!   netsim-pg selfcheck C16 [--runs N]
//!
//! Exit codes: 0 property held on everything explored; 1 violation (a line
//! `VIOLATION property=C16 replay=<path>` is printed); 2 harness error.

#[path = "../../dsim/src/engine.rs"]
#[allow(dead_code)]
mod engine;
mod cache;
mod run;
mod scenario;
mod server;
mod world;

use serde_json::json;
use simcore::cli::*;
use simcore::common::*;
use simcore::rng;
use simcore::Decision;

pub struct Pg;

impl Harness for Pg {
    type Sc = scenario::Scenario;
    fn name(&self) -> &'static str {
        "netsim-pg"
    }
    fn generate(&self, rng: &mut rng::Rng, _profile: &str, thorough: bool) -> Self::Sc {
        scenario::generate(rng, thorough)
    }
    fn run(&self, sc: &Self::Sc, _replay: Option<Vec<Decision>>, trace: bool) -> Outcome {
        // the schedule is the deterministic FIFO order of the current_thread runtime:
        // nothing to replay beyond the scenario itself
        run::run(sc, trace)
    }
    fn shrink_candidates(&self, sc: &Self::Sc) -> Vec<Self::Sc> {
        scenario::shrink_candidates(sc)
    }
    fn set_sched_seed(&self, _sc: &mut Self::Sc, _seed: u64) {}
    fn grid(&self, _profile: &str, _thorough: bool) -> Vec<Self::Sc> {
        scenario::grid()
    }
    fn shape(&self, sc: &Self::Sc) -> String {
        scenario::shape(sc)
    }
}

fn meta() -> PropMeta {
    PropMeta {
        level: "exploration",
        quick_secs: 20.0,
        thorough_secs: 300.0,
        rule: "each evaluation = one seeded scenario (recycling method, pool size and timeouts, 1..3 client op scripts over gets/returns/takes/resizes/retains/prepares/uses/cache and registry clears, per-connection server fault script) run on a current_thread tokio runtime with paused clock against the real deadpool-postgres + tokio-postgres over an in-memory pipe, every op checked against the reference model; distinct = distinct hash of the per-run sequence (op kind, outcome class, fault kind fired); non-trivial = at least one fault fired, or a cache hit after a miss on a connection recycled in between, or two client tasks had overlapping operations. Thread-level half (30% of the budget, engine E1): one seeded scenario = 1..2 shared clients, 2..4 virtual threads with scripts over prepare{shared / own client, key, server error, cancellable} / remove / clear / size / registry clear / registry remove / attach (Manager::create) / detach, enabled schedule points at every cache / registry lock operation and counter update, run under one seeded schedule; at rest size() is compared with the keys really cached, per client, and the registry clear with the set of attached clients",
    }
}

fn real_vs_stub() -> serde_json::Value {
    json!({
        "real": ["deadpool_postgres::{Manager, ClientWrapper, StatementCache, StatementCaches, RecyclingMethod}", "deadpool::managed::{Pool, Object} (get, return, take, resize, retain, close, timeouts)", "tokio_postgres client, codec and Connection future (connect_raw handshake, simple and extended query protocol)", "tokio current_thread scheduler, tokio time driver on a paused clock"],
        "simulated": ["OS thread scheduling for the thread-level half (coroutines + seeded controller; every lock operation of StatementCache / StatementCaches and every size counter update is a schedule point; replies are delivered by a network pump the controller runs after every step)", "transport (tokio::io::duplex instead of a socket, via the crate's own Connect trait)", "PostgreSQL server (scripted: startup, Query, Parse/Describe/Sync, Bind/Execute/Sync, Close, Terminate; faults by message index)", "wall clock (paused, auto-advancing)"],
        "not_exercised": ["TLS", "Transaction / TransactionBuilder wrappers (share the same StatementCache methods)", "non built-in types (typeinfo catalogue queries)", "async-std runtime branch"]
    })
}

fn assumptions() -> Vec<String> {
    vec![
        "task-level half: tasks interleave only at awaits (single-threaded FIFO scheduler); interleavings are varied through explicit yields / sleeps in the scenario, not through a schedule search".into(),
        "thread-level half: interleavings are sequentially consistent and preempt at every lock / unlock of the statement cache and the cache registry, before every update of the size counter and at awaits; pool operations are not part of it (they are C01-C13's subject)".into(),
        "the scripted server answers like PostgreSQL for the message subset used (unspecified parameter types resolve to TEXT); only built-in type OIDs occur".into(),
        "connection identity is taken from BackendKeyData.process_id echoed in a CancelRequest written to a capture stream; idle clients are inspected through Pool::verif_snapshot (cfg deadpool_verif)".into(),
        "bounded exploration by seeded sampling: a clean batch is evidence within the stated bounds, not proof".into(),
    ]
}

fn check(id: &str, args: &[String]) -> i32 {
    if id != "C16" {
        eprintln!("harness error: unknown property {id}");
        return 2;
    }
    let tier = arg_val(args, "--tier")
        .or_else(|| std::env::var("VERIF_TIER").ok())
        .unwrap_or_else(|| "quick".into());
    let thorough = tier == "thorough";
    let seed: u64 = std::env::var("VERIF_SEED").ok().and_then(|s| s.parse().ok()).unwrap_or(20260926);
    let m = meta();
    let secs = arg_val(args, "--secs")
        .and_then(|s| s.parse().ok())
        .unwrap_or(if thorough { m.thorough_secs } else { m.quick_secs });
    let max_runs = arg_val(args, "--runs").and_then(|s| s.parse().ok()).unwrap_or(u64::MAX / 4);
    let workers = arg_val(args, "--workers")
        .and_then(|s| s.parse().ok())
        .unwrap_or_else(|| std::thread::available_parallelism().map(|n| n.get()).unwrap_or(4));
    let vd = verif_dir();
    let known = load_known(&vd.join("known_findings.json"));
    let cfg = BatchCfg {
        profile: id.to_string(),
        seed,
        thorough,
        max_runs,
        secs,
        workers,
        known,
        corpus_dir: Some(vd.join("corpus").join(id)),
    };
    // task-level histories against the scripted server first (engine E2), then the thread-level
    // half: statement cache and cache registry under a controlled scheduler (engine E1)
    let mut cfg = cfg;
    let only = arg_val(args, "--only");
    let h = Pg;
    cfg.secs = if only.as_deref() == Some("cache") { 0.0 } else if only.as_deref() == Some("net") { secs } else { secs * 0.7 };
    let r = run_batch(&h, &cfg);
    if r.found.is_some() || r.harness_error.is_some() || !r.unreproducible.is_empty() || only.as_deref() == Some("net") {
        return finish(&h, id, &tier, seed, &m, r, real_vs_stub(), assumptions());
    }
    engine::install_hooks();
    let hc = cache::PgCache;
    cfg.secs = if only.as_deref() == Some("cache") { secs } else { secs * 0.3 };
    let mut rc = run_batch(&hc, &cfg);
    rc.agg.merge(r.agg);
    rc.wall_s += r.wall_s;
    rc.known_hits.extend(r.known_hits);
    finish(&hc, id, &tier, seed, &m, rc, real_vs_stub(), assumptions())
}

fn replay(path: &str, quiet: bool) -> i32 {
    let txt = match std::fs::read_to_string(path) {
        Ok(t) => t,
        Err(e) => {
            eprintln!("harness error: cannot read {path}: {e}");
            return 2;
        }
    };
    let v: serde_json::Value = match serde_json::from_str(&txt) {
        Ok(v) => v,
        Err(e) => {
            eprintln!("harness error: {e}");
            return 2;
        }
    };
    match v["harness"].as_str().unwrap_or("") {
        "netsim-pg" => {
            let rf: ReplayFile<scenario::Scenario> = match serde_json::from_value(v) {
                Ok(r) => r,
                Err(e) => {
                    eprintln!("harness error: {e}");
                    return 2;
                }
            };
            do_replay(&Pg, &rf, path, quiet)
        }
        "dsim-pgcache" => {
            let rf: ReplayFile<cache::CScenario> = match serde_json::from_value(v) {
                Ok(r) => r,
                Err(e) => {
                    eprintln!("harness error: {e}");
                    return 2;
                }
            };
            engine::install_hooks();
            do_replay(&cache::PgCache, &rf, path, quiet)
        }
        other => {
            eprintln!("harness error: unknown harness {other:?} in replay file");
            2
        }
    }
}

/// Determinism proof on a sample: every seed is run twice, on different worker threads
/// (16 workers ascending, then 5 workers descending); event-log hashes and verdicts must agree.
fn selfcheck(id: &str, args: &[String]) -> i32 {
    use std::sync::atomic::{AtomicU64, Ordering};
    if id != "C16" {
        eprintln!("harness error: unknown property {id}");
        return 2;
    }
    let runs: u64 = arg_val(args, "--runs").and_then(|s| s.parse().ok()).unwrap_or(10_000);
    let seed: u64 = std::env::var("VERIF_SEED").ok().and_then(|s| s.parse().ok()).unwrap_or(20260926);
    let h = Pg;
    let pass = |nw: usize, reverse: bool| -> Vec<(u64, u64, u64, Option<String>)> {
        let out = std::sync::Mutex::new(vec![(0u64, 0u64, 0u64, None); runs as usize]);
        let next = AtomicU64::new(0);
        std::thread::scope(|s| {
            for _ in 0..nw {
                s.spawn(|| loop {
                    let k = next.fetch_add(1, Ordering::SeqCst);
                    if k >= runs {
                        break;
                    }
                    let i = if reverse { runs - 1 - k } else { k };
                    let mut rng = rng::Rng::new(rng::mix(&[seed, 0x5e1f, i]));
                    let sc = h.generate(&mut rng, id, i % 2 == 0);
                    let o = h.run(&sc, None, false);
                    let sig = o.violation.as_ref().map(|v| format!("{} {}", v.signature(), v.detail));
                    out.lock().unwrap()[i as usize] = (o.log_hash, o.ileave, o.steps, sig);
                });
            }
        });
        out.into_inner().unwrap()
    };
    let mut a = pass(16, false);
    let mut b = pass(5, true);
    // thread-level half (engine E1): the same proof for the cache harness
    engine::install_hooks();
    let hc = cache::PgCache;
    let pass_c = |nw: usize, reverse: bool| -> Vec<(u64, u64, u64, Option<String>)> {
        let out = std::sync::Mutex::new(vec![(0u64, 0u64, 0u64, None); runs as usize]);
        let next = AtomicU64::new(0);
        std::thread::scope(|s| {
            for _ in 0..nw {
                s.spawn(|| loop {
                    let k = next.fetch_add(1, Ordering::SeqCst);
                    if k >= runs {
                        break;
                    }
                    let i = if reverse { runs - 1 - k } else { k };
                    let mut rng = rng::Rng::new(rng::mix(&[seed, 0xcac4e, i]));
                    let sc = hc.generate(&mut rng, id, i % 2 == 0);
                    let o = hc.run(&sc, None, false);
                    let sig = o.violation.as_ref().map(|v| format!("{} {}", v.signature(), v.detail));
                    out.lock().unwrap()[i as usize] = (o.log_hash, o.ileave, o.steps, sig);
                });
            }
        });
        out.into_inner().unwrap()
    };
    a.extend(pass_c(16, false));
    b.extend(pass_c(5, true));
    let runs = runs * 2;
    let mut bad = 0;
    for i in 0..runs as usize {
        if a[i] != b[i] {
            if bad < 5 {
                eprintln!("selfcheck: run {i} differs: {:?} vs {:?}", a[i], b[i]);
            }
            bad += 1;
        }
    }
    if bad > 0 {
        eprintln!("harness error: {bad} of {runs} runs are not deterministic");
        return 2;
    }
    // digest over all event-log hashes: compare across process invocations
    let mut d = rng::Hasher::default();
    for x in &a {
        d.u64(x.0);
    }
    println!("selfcheck {id}: {runs} seeds x 2 runs (different workers) identical, digest={:016x}", d.0);
    0
}

fn main() {
    let args: Vec<String> = std::env::args().collect();
    let code = match args.get(1).map(|s| s.as_str()) {
        Some("check") if args.len() >= 3 => check(&args[2], &args[3..]),
        Some("replay") if args.len() >= 3 => replay(&args[2], args.iter().any(|a| a == "--quiet")),
        Some("selfcheck") if args.len() >= 3 => selfcheck(&args[2], &args[3..]),
        // debugging aid: print scenario and full trace of seeded run <i> (or grid case with --grid)
        Some("sample") if args.len() >= 3 => {
            let i: u64 = args[2].parse().unwrap_or(0);
            let seed: u64 = std::env::var("VERIF_SEED").ok().and_then(|s| s.parse().ok()).unwrap_or(20260926);
            let sc = if args.iter().any(|a| a == "--grid") {
                scenario::grid()[i as usize].clone()
            } else {
                let mut h = rng::Hasher::default();
                h.str("C16");
                let mut r = rng::Rng::new(rng::mix(&[seed, h.0, i]));
                scenario::generate(&mut r, args.iter().any(|a| a == "--thorough"))
            };
            println!("{}", serde_json::to_string(&sc).unwrap());
            let o = run::run(&sc, true);
            for l in &o.trace {
                println!("{l}");
            }
            println!("violation={:?} nontrivial={} faults={:?} probes={:?} virtual_ms={}", o.violation, o.nontrivial, o.faults, o.probes, o.virtual_ms);
            0
        }
        _ => {
            eprintln!("usage: netsim-pg check C16 [--tier quick|thorough] [--secs S] [--runs N] [--workers N] | replay <file> [--quiet] | selfcheck C16 [--runs N]");
            2
        }
    };
    std::process::exit(code);
}
