//! One deterministic run: a current_thread tokio runtime with paused clock, the real
//! deadpool-postgres pool over the scripted transport, 1..3 client tasks.

use std::{
    sync::{Arc, Mutex},
    time::Duration,
};

use deadpool_postgres::{Manager, ManagerConfig, Object, Pool, PoolError, RecyclingMethod, Runtime};
use simcore::common::Outcome;
use tokio::time::timeout;
use tokio_postgres::{
    config::SslMode,
    types::{ToSql, Type},
    Statement,
};

use crate::scenario::*;
use crate::server::{ident, SimConnect, W};
use crate::world::*;

/// Every awaiting client operation is bounded (virtual time), so a stalled server can
/// never hang a run.
const OP_TIMEOUT: Duration = Duration::from_secs(2);
const RUN_TIMEOUT: Duration = Duration::from_secs(600);

static N_I32: Option<i32> = None;
static N_I64: Option<i64> = None;
static N_STR: Option<&str> = None;

fn null_param(t: &Type) -> &'static (dyn ToSql + Sync) {
    match *t {
        Type::INT4 => &N_I32,
        Type::INT8 => &N_I64,
        _ => &N_STR,
    }
}

fn types_of(idx: u8) -> Vec<Type> {
    TYPELISTS[idx as usize % TYPELISTS.len()].iter().map(|o| Type::from_oid(*o).expect("built-in oid")).collect()
}

/// A statement handed to a client task, with what the harness asked for.
struct StmtRef {
    stmt: Statement,
    conn: u32,
    key: Key,
}

pub fn run(sc: &Scenario, trace: bool) -> Outcome {
    // PoolConfig::default() would read /proc/cpuinfo for every pool
    deadpool_runtime::verif::set_physical_cpus(4);
    let rt = tokio::runtime::Builder::new_current_thread()
        .enable_time()
        .start_paused(true)
        .build()
        .expect("runtime");
    let w: W = Arc::new(Mutex::new(World::new(sc, trace)));
    let t0 = rt.block_on(async { tokio::time::Instant::now() });
    let main = async {
        let r = timeout(RUN_TIMEOUT, drive(w.clone(), sc)).await;
        if r.is_err() {
            w.lock().unwrap().harness_error("run exceeded the virtual-time cap".into());
        }
        t0.elapsed().as_millis() as u64
    };
    let migrates = sc.tasks.iter().any(|t| t.iter().any(|o| matches!(o, Op::Migrate)));
    let virtual_ms = if !migrates {
        rt.block_on(main)
    } else {
        let ctl = w.lock().unwrap().migrate.clone();
        let (ms, phases) = simcore::phased::run_alternating(Box::pin(main), &|f| rt.block_on(f), &ctl.0, &ctl.1, &|| {}, &|| {});
        *w.lock().unwrap().fired.entry("os_thread_migration".into()).or_insert(0) += phases - 1;
        ms
    };
    drop(rt); // cancels server / connection tasks still parked
    let mut g = w.lock().unwrap();
    let wd = &mut *g;
    Outcome {
        violation: wd.violation.take(),
        log_hash: wd.hash.0,
        trace: std::mem::take(&mut wd.trace),
        steps: wd.steps,
        ops: wd.ops,
        virtual_ms,
        nontrivial: wd.nontrivial,
        ileave: wd.ileave.0,
        faults: std::mem::take(&mut wd.fired),
        probes: std::mem::take(&mut wd.probes),
        ..Outcome::default()
    }
}

async fn drive(w: W, sc: &Scenario) {
    let mut cfg = tokio_postgres::Config::new();
    let _ = cfg.user("sim").dbname("sim").ssl_mode(SslMode::Disable);
    let recycling_method = match &sc.method {
        Method::Fast => RecyclingMethod::Fast,
        Method::Verified => RecyclingMethod::Verified,
        Method::Clean => RecyclingMethod::Clean,
        Method::Custom(s) => RecyclingMethod::Custom(s.clone()),
    };
    let mgr = Manager::from_connect(cfg, SimConnect { w: w.clone(), linger: sc.lingering_conn_task }, ManagerConfig { recycling_method });
    let pool = Pool::builder(mgr)
        .max_size(sc.max_size as usize)
        .runtime(Runtime::Tokio1)
        .recycle_timeout(sc.recycle_timeout_ms.map(|m| Duration::from_millis(m as u64)))
        .wait_timeout(sc.wait_timeout_ms.map(|m| Duration::from_millis(m as u64)))
        .build()
        .expect("pool");
    w.lock().unwrap().ev(format!(
        "pool max_size={} method={} recycle_timeout={:?} wait_timeout={:?}",
        sc.max_size,
        sc.method.tag(),
        sc.recycle_timeout_ms,
        sc.wait_timeout_ms
    ));
    let mut handles = Vec::new();
    for (tid, ops) in sc.tasks.iter().enumerate() {
        handles.push(tokio::spawn(client_task(w.clone(), pool.clone(), tid, ops.clone())));
    }
    for h in handles {
        if let Err(e) = h.await {
            w.lock().unwrap().harness_error(format!("client task failed: {e}"));
        }
    }
    // let housekeeping traffic and disconnects settle, then the final audit
    tokio::time::sleep(Duration::from_millis(5)).await;
    for _ in 0..4 {
        tokio::task::yield_now().await;
    }
    {
        let mut g = w.lock().unwrap();
        g.ev("end of history: final audit".into());
        g.audit(&pool, false, true);
        // release everything the harness still holds before the pool goes away
        for t in g.held.iter_mut() {
            for s in t.iter_mut() {
                *s = None;
            }
        }
        g.removed.clear();
        g.handles.clear();
    }
    drop(pool);
}

async fn client_task(w: W, pool: Pool, tid: usize, ops: Vec<Op>) {
    let mut stmts: Vec<StmtRef> = Vec::new();
    for (i, op) in ops.iter().enumerate() {
        if w.lock().unwrap().violation.is_some() {
            break;
        }
        exec(&w, &pool, tid, i, op, &mut stmts).await;
        tokio::task::yield_now().await;
    }
    drop(stmts);
}

/// Logs the return of an op: event log, interleaving hash, op count.
fn ret(g: &mut World, tid: usize, i: usize, op: &Op, class: &str, detail: String) {
    g.ops += 1;
    g.ileave.str(op.kind());
    g.ileave.str(class);
    g.ev(format!("t{tid}.{i} {} => {class}{}{detail}", op.kind(), if detail.is_empty() { "" } else { " " }));
}

fn begin_awaiting(g: &mut World) {
    if g.awaiting_ops > 0 {
        // two client tasks have operations in flight at the same time
        g.nontrivial = true;
        g.probe("overlapping_ops");
    }
    g.awaiting_ops += 1;
}

fn held_of(g: &World, tid: usize, slot: u8) -> Option<(u32, Held)> {
    g.held[tid][slot as usize % SLOTS].clone()
}

/// No Query/Parse/Bind may have reached connection `c` since its traffic was last accounted for.
fn pre_audit(g: &mut World, c: u32) {
    let seg = g.segment(c);
    if !seg.is_empty() {
        let d = format!(
            "c{c} saw {} between two operations of its holder (nobody asked for it)",
            World::describe_seg(&seg)
        );
        g.violate("cache_hit_no_roundtrip", d);
    }
}

async fn exec(w: &W, pool: &Pool, tid: usize, i: usize, op: &Op, stmts: &mut Vec<StmtRef>) {
    w.lock().unwrap().ev(format!("t{tid}.{i} invoke {op:?}"));
    match op {
        Op::Yield { n } => {
            for _ in 0..*n {
                tokio::task::yield_now().await;
            }
            ret(&mut w.lock().unwrap(), tid, i, op, "done", String::new());
            return;
        }
        Op::Migrate => {
            let ctl = w.lock().unwrap().migrate.clone();
            ctl.0.store(true, std::sync::atomic::Ordering::SeqCst);
            let wk = ctl.1.lock().unwrap().clone();
            if let Some(wk) = wk {
                wk.wake_by_ref();
            }
            tokio::task::yield_now().await;
            ret(&mut w.lock().unwrap(), tid, i, op, "done", String::new());
            return;
        }
        Op::Sleep { ms } => {
            tokio::time::sleep(Duration::from_millis(*ms as u64)).await;
            ret(&mut w.lock().unwrap(), tid, i, op, "done", String::new());
            return;
        }
        Op::Get { slot } => {
            let dead_at_invoke: Vec<u32> = {
                let mut g = w.lock().unwrap();
                if held_of(&g, tid, *slot).is_some() {
                    ret(&mut g, tid, i, op, "skipped", String::new());
                    return;
                }
                begin_awaiting(&mut g);
                g.gets_in_flight += 1;
                (0..g.conns.len() as u32).filter(|c| g.conns[*c as usize].conn_done).collect()
            };
            let r = timeout(OP_TIMEOUT, pool.get()).await;
            let mut g = w.lock().unwrap();
            g.gets_in_flight -= 1;
            g.awaiting_ops -= 1;
            match r {
                Ok(Ok(obj)) => on_handout(&mut g, tid, i, op, *slot, obj, &dead_at_invoke),
                Ok(Err(e)) => {
                    let class = match &e {
                        PoolError::Timeout(t) => format!("err_timeout_{t:?}").to_lowercase(),
                        PoolError::Backend(_) => "err_backend".into(),
                        PoolError::Closed => "err_closed".into(),
                        _ => "err_other".into(),
                    };
                    g.probe(&format!("get_{class}"));
                    ret(&mut g, tid, i, op, &class, format!("{e}"));
                }
                Err(_) => {
                    g.probe("get_cancelled_by_op_timeout");
                    ret(&mut g, tid, i, op, "op_timeout", String::new());
                }
            }
            g.audit(pool, false, false);
            return;
        }
        Op::Prepare { slot, sql } | Op::PrepareTyped { slot, sql, .. } | Op::PrepareJoin { slot, sql, .. } => {
            let typed = match op {
                Op::PrepareTyped { types, .. } | Op::PrepareJoin { types, .. } => Some(*types),
                _ => None,
            };
            let joined = matches!(op, Op::PrepareJoin { .. });
            let key: Key = (*sql % SQLS.len() as u8, typed.unwrap_or(0) % TYPELISTS.len() as u8);
            let text = SQLS[key.0 as usize];
            let given = TYPELISTS[key.1 as usize];
            let (c, h, expect_hit, before) = {
                let mut g = w.lock().unwrap();
                let Some((c, h)) = held_of(&g, tid, *slot) else {
                    ret(&mut g, tid, i, op, "skipped", String::new());
                    return;
                };
                pre_audit(&mut g, c);
                g.advance(c);
                begin_awaiting(&mut g);
                let cn = &g.conns[c as usize];
                let expect_hit = cn.keys.contains_key(&key);
                if !expect_hit && cn.keys.keys().any(|k| k.0 == key.0) {
                    g.probe("typed_key_collision_candidate");
                }
                (c, h, expect_hit, g.total_msgs())
            };
            let any_ok = std::sync::atomic::AtomicBool::new(false);
            let r = match typed {
                None => timeout(OP_TIMEOUT, h.cw().prepare_cached(text)).await,
                Some(t) if joined => {
                    // both calls overlap on the same client: both may miss, both must end up
                    // under one key
                    let tys = types_of(t);
                    timeout(OP_TIMEOUT, async {
                        // each half records its own success: the outer timeout may cut the join short
                        let one = || async {
                            let r = h.cw().prepare_typed_cached(text, &tys).await;
                            if r.is_ok() {
                                any_ok.store(true, std::sync::atomic::Ordering::Relaxed);
                                // the key is in the cache from this instant on (other tasks may
                                // audit before the second half finishes)
                                let mut g = w.lock().unwrap();
                                let at = g.conns[c as usize].handouts;
                                let _ = g.conns[c as usize].keys.entry(key).or_insert(at);
                            }
                            r
                        };
                        let (a, b) = tokio::join!(one(), one());
                        a.and_then(|_| b)
                    })
                    .await
                }
                Some(t) => timeout(OP_TIMEOUT, h.cw().prepare_typed_cached(text, &types_of(t))).await,
            };
            let mut g = w.lock().unwrap();
            g.awaiting_ops -= 1;
            let seg = g.segment(c);
            g.advance(c);
            let ok = matches!(r, Ok(Ok(_)));
            let is_the_parse =
                |m: &Msg| matches!(&m.kind, MsgKind::Parse { sql, oids, .. } if sql == text && oids.as_slice() == given);
            if expect_hit {
                g.probe("cache_hit");
                let recycled_since = g.conns[c as usize].keys[&key] < g.conns[c as usize].handouts;
                if recycled_since {
                    g.probe("cache_hit_after_recycle");
                    g.nontrivial = true;
                }
                if !ok || !seg.is_empty() || g.total_msgs() != before {
                    let d = format!(
                        "{} on c{c} must be a cache hit (key cached since hand-out #{}), but the call {} and the server saw {} ({} new frontend message(s) in total)",
                        key_str(key),
                        g.conns[c as usize].keys[&key],
                        if ok { "returned Ok" } else { "failed / timed out" },
                        World::describe_seg(&seg),
                        g.total_msgs() - before
                    );
                    g.violate("cache_hit_no_roundtrip", d);
                }
            } else {
                g.probe("cache_miss");
                let exact = (seg.len() == 1 && is_the_parse(&seg[0]))
                    || (joined && seg.len() == 2 && seg.iter().all(|m| is_the_parse(m) && m.reply.answered_ok()));
                if joined && seg.len() == 2 {
                    g.probe("overlapping_prepares_both_missed");
                }
                let tolerated = seg.is_empty() || exact || (joined && seg.len() <= 2 && seg.iter().all(|m| is_the_parse(m)));
                if (ok && !(exact && seg[0].reply.answered_ok())) || (!ok && !tolerated) {
                    // did the Parse go to some other connection?
                    let elsewhere: Vec<String> = (0..g.conns.len() as u32)
                        .filter(|o| *o != c)
                        .filter(|o| g.segment(*o).iter().any(|m| matches!(m.kind, MsgKind::Parse { .. })))
                        .map(|o| format!("c{o}"))
                        .collect();
                    let d = format!(
                        "{} is not cached on c{c}: expected exactly one Parse({text:?}, {given:?}) on c{c}, the call {} and c{c} saw {}{}",
                        key_str(key),
                        if ok { "returned Ok" } else { "failed" },
                        World::describe_seg(&seg),
                        if elsewhere.is_empty() { String::new() } else { format!("; Parse seen on {elsewhere:?}") }
                    );
                    g.violate("cache_miss_one_parse_same_conn", d);
                }
                if ok && !joined {
                    let at = g.conns[c as usize].handouts;
                    let _ = g.conns[c as usize].keys.insert(key, at);
                }
            }
            let class = match &r {
                Ok(Ok(stmt)) => {
                    // client-side view of the same clause: parameter types of the returned statement
                    let want = resolved_oids(text, given);
                    let got: Vec<u32> = stmt.params().iter().map(|t| t.oid()).collect();
                    if got != want {
                        let d = format!(
                            "{} on c{c} returned a statement with parameter types {got:?}, expected {want:?}",
                            key_str(key)
                        );
                        g.violate("statement_matches_key", d);
                    }
                    stmts.push(StmtRef { stmt: stmt.clone(), conn: c, key });
                    if expect_hit { "hit" } else { "miss" }
                }
                Ok(Err(_)) => "err",
                Err(_) => "op_timeout",
            };
            let detail = match &r {
                Ok(Err(e)) => format!("{e}"),
                _ => String::new(),
            };
            ret(&mut g, tid, i, op, class, detail);
            drop(r);
            g.audit(pool, false, false);
            return;
        }
        Op::Use { slot, stmt } => {
            let (c, h, sidx) = {
                let mut g = w.lock().unwrap();
                let Some((c, h)) = held_of(&g, tid, *slot) else {
                    ret(&mut g, tid, i, op, "skipped", String::new());
                    return;
                };
                if stmts.is_empty() {
                    ret(&mut g, tid, i, op, "skipped", String::new());
                    return;
                }
                let sidx = *stmt as usize % stmts.len();
                if stmts[sidx].conn != c {
                    // statements must only be used with the client they came from
                    ret(&mut g, tid, i, op, "skipped", "statement belongs to another client".into());
                    return;
                }
                pre_audit(&mut g, c);
                g.advance(c);
                begin_awaiting(&mut g);
                (c, h, sidx)
            };
            let sr = &stmts[sidx];
            let params: Vec<&(dyn ToSql + Sync)> = sr.stmt.params().iter().map(null_param).collect();
            let r = timeout(OP_TIMEOUT, h.cw().execute(&sr.stmt, &params)).await;
            let mut g = w.lock().unwrap();
            g.awaiting_ops -= 1;
            let seg = g.segment(c);
            g.advance(c);
            let text = SQLS[sr.key.0 as usize];
            let want = resolved_oids(text, TYPELISTS[sr.key.1 as usize]);
            let ok = matches!(r, Ok(Ok(_)));
            let good_bind = |m: &Msg| matches!(&m.kind, MsgKind::Bind { ord: Some(_), sql, oids, .. } if sql == text && *oids == want);
            let unknown = seg.iter().any(|m| matches!(&m.kind, MsgKind::Bind { ord: None, .. }));
            let wrong = seg.iter().any(|m| matches!(&m.kind, MsgKind::Bind { ord: Some(_), .. }) && !good_bind(m));
            let shape_ok = if ok { seg.len() == 1 && good_bind(&seg[0]) } else { seg.len() <= 1 };
            if unknown || wrong || !shape_ok {
                let d = format!(
                    "executing the statement returned for {} on c{c}: expected one Bind of a statement prepared on c{c} as ({text:?}, {want:?}); call {}, c{c} saw {}",
                    key_str(sr.key),
                    if ok { "returned Ok" } else { "failed" },
                    World::describe_seg(&seg)
                );
                g.violate("statement_usable_on_its_connection", d);
            }
            let (class, detail) = match &r {
                Ok(Ok(_)) => ("ok", String::new()),
                Ok(Err(e)) => ("err", format!("{e}")),
                Err(_) => ("op_timeout", String::new()),
            };
            ret(&mut g, tid, i, op, class, detail);
            g.audit(pool, false, false);
            return;
        }
        _ => {}
    }
    // ---- synchronous ops: one critical section
    let settle = sync_op(w, pool, tid, i, op);
    for _ in 0..settle {
        tokio::task::yield_now().await;
    }
}

/// Executes a synchronous op under the world lock; returns the number of yields to follow.
fn sync_op(w: &W, pool: &Pool, tid: usize, i: usize, op: &Op) -> u8 {
    let mut g = w.lock().unwrap();
    let g = &mut *g;
    let mut registry = false;
    let mut settle = 0;
    match op {
        Op::Return { slot } => {
            let Some((c, h)) = g.held[tid][*slot as usize % SLOTS].take() else {
                ret(g, tid, i, op, "skipped", String::new());
                return 0;
            };
            pre_audit(g, c);
            g.advance(c);
            match h {
                Held::Obj(o) => {
                    let obj = Arc::try_unwrap(o).ok().expect("object shared at return");
                    drop(obj);
                    let idle = World::idle_snapshot(pool);
                    if idle.iter().any(|x| x.0 == c) {
                        g.conns[c as usize].idle_since = true;
                        ret(g, tid, i, op, "to_pool", format!("c{c}"));
                    } else {
                        g.probe("released_on_return");
                        g.mark_gone(c, "pool over max_size at return");
                        ret(g, tid, i, op, "released", format!("c{c}"));
                    }
                }
                Held::Taken(cw) => {
                    drop(Arc::try_unwrap(cw).ok().expect("client shared at drop"));
                    g.mark_gone(c, "taken client dropped by its owner");
                    ret(g, tid, i, op, "dropped_taken", format!("c{c}"));
                }
            }
        }
        Op::Take { slot } => {
            let s = *slot as usize % SLOTS;
            match g.held[tid][s].take() {
                Some((c, Held::Obj(o))) => {
                    let obj = Arc::try_unwrap(o).ok().expect("object shared at take");
                    let cw = Object::take(obj);
                    g.conns[c as usize].released = true;
                    g.held[tid][s] = Some((c, Held::Taken(Arc::new(cw))));
                    ret(g, tid, i, op, "taken", format!("c{c}"));
                }
                other => {
                    g.held[tid][s] = other;
                    ret(g, tid, i, op, "skipped", String::new());
                    return 0;
                }
            }
        }
        Op::Resize { .. } | Op::Close => {
            let before = World::idle_snapshot(pool);
            match op {
                Op::Resize { n } => pool.resize(*n as usize),
                _ => pool.close(),
            }
            let after = World::idle_snapshot(pool);
            let mut dropped = Vec::new();
            for (c, _) in &before {
                if !after.iter().any(|a| a.0 == *c) {
                    dropped.push(*c);
                    g.probe("resize_or_close_dropped_idle");
                    g.mark_gone(*c, "dropped by resize/close");
                }
            }
            ret(g, tid, i, op, if dropped.is_empty() { "done" } else { "dropped_idle" }, format!("{dropped:?}"));
        }
        Op::Retain { pred, keep } => {
            let p = *pred;
            let res = pool.retain(|cw, _| match p {
                Pred::KeepAll => true,
                Pred::DropAll => false,
                Pred::DropOdd => ident(cw) % 2 == 0,
                Pred::DropClosed => !cw.is_closed(),
            });
            let mut ids = Vec::new();
            for cw in res.removed {
                let c = ident(&cw);
                ids.push(c);
                g.probe("retain_removed");
                g.conns[c as usize].released = true;
                if *keep {
                    g.removed.push((c, cw));
                } else {
                    drop(cw);
                    g.mark_gone(c, "removed by retain and dropped");
                }
            }
            ret(g, tid, i, op, if ids.is_empty() { "done" } else { "removed" }, format!("{ids:?}"));
        }
        Op::CacheClear { slot } | Op::CacheRemove { slot, .. } | Op::HoldCache { slot } => {
            let Some((c, h)) = held_of(g, tid, *slot) else {
                ret(g, tid, i, op, "skipped", String::new());
                return 0;
            };
            match op {
                Op::CacheClear { .. } => {
                    h.cw().statement_cache.clear();
                    g.conns[c as usize].keys.clear();
                }
                Op::CacheRemove { sql, types, .. } => {
                    let key: Key = (*sql % SQLS.len() as u8, *types % TYPELISTS.len() as u8);
                    drop(h.cw().statement_cache.remove(SQLS[key.0 as usize], &types_of(key.1)));
                    let _ = g.conns[c as usize].keys.remove(&key);
                }
                _ => {
                    let _ = g.handles.insert(c, h.cw().statement_cache.clone());
                }
            }
            ret(g, tid, i, op, "done", format!("c{c}"));
        }
        Op::RegClear => {
            registry = true;
            g.model_registry(pool, None);
            pool.manager().statement_caches.clear();
            ret(g, tid, i, op, "done", String::new());
        }
        Op::RegRemove { sql, types } => {
            registry = true;
            let key: Key = (*sql % SQLS.len() as u8, *types % TYPELISTS.len() as u8);
            g.model_registry(pool, Some(key));
            pool.manager().statement_caches.remove(SQLS[key.0 as usize], &types_of(key.1));
            ret(g, tid, i, op, "done", key_str(key));
        }
        Op::Kill { conn, settle: n } => {
            settle = *n;
            let c = *conn as usize;
            if c < g.conns.len() && !g.conns[c].server_closed {
                g.conns[c].kill.notify_one();
                g.conns[c].server_closed = true;
                *g.fired.entry("kill_connection".into()).or_insert(0) += 1;
                g.ileave.str("kill_connection");
                g.nontrivial = true;
                ret(g, tid, i, op, "killed", format!("c{c}"));
            } else {
                ret(g, tid, i, op, "skipped", String::new());
                return 0;
            }
        }
        _ => unreachable!(),
    }
    g.audit(pool, registry, false);
    settle
}

/// get() returned an Object: identity, closed-client rule, recycle-check accounting.
fn on_handout(g: &mut World, tid: usize, i: usize, op: &Op, slot: u8, obj: Object, dead_at_invoke: &[u32]) {
    let c = ident(&obj);
    let seg = g.segment(c);
    let cn = &g.conns[c as usize];
    let first = cn.handouts == 0;
    if dead_at_invoke.contains(&c) {
        let d = format!(
            "get() handed out c{c} although its connection task had finished (Client::is_closed() == {}) before the get() was invoked",
            obj.is_closed()
        );
        g.violate("closed_client_handed_out", d);
    } else if cn.released || cn.gone {
        let d = format!("get() handed out c{c} which had already left the pool");
        g.harness_error(d);
    } else if first {
        if !seg.is_empty() {
            let d = format!("fresh connection c{c} saw {} before its first hand-out", World::describe_seg(&seg));
            g.violate("recycle_check_exact", d);
        }
    } else {
        let (exact, _, ok) = g.match_recycle(&seg);
        if !exact {
            let d = format!(
                "c{c} was recycled with method {}: expected {}, the server saw {}",
                g.method.tag(),
                g.describe_expect(),
                World::describe_seg(&seg)
            );
            g.violate("recycle_check_exact", d);
        } else if !ok {
            let d = format!("c{c} was handed out although its recycle check failed: {}", World::describe_seg(&seg));
            g.violate("failed_check_discards", d);
        }
        g.probe("recycled_handout");
    }
    if g.conns[c as usize].server_closed && !dead_at_invoke.contains(&c) {
        g.probe("dead_but_unobserved_client_handed_out");
    }
    g.advance(c);
    let cn = &mut g.conns[c as usize];
    cn.handouts += 1;
    cn.idle_since = false;
    g.held[tid][slot as usize % SLOTS] = Some((c, Held::Obj(Arc::new(obj))));
    ret(g, tid, i, op, if first { "fresh" } else { "recycled" }, format!("c{c}"));
}
