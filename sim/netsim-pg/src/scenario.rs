//! Scenario = everything a run depends on: pool config, recycling method, one
//! op list per client task, server fault script. Explicit, serialisable, shrinkable.

use serde::{Deserialize, Serialize};
use simcore::rng::Rng;

/// SQL alphabet (index = `sql` field of the ops). `$n` placeholders: 0, 1, 1, 2.
pub const SQLS: [&str; 7] = [
    "SELECT 1",
    "SELECT $1",
    "SELECT $1 AS other",
    "UPDATE t SET a = $1 WHERE b = $2",
    "SELECT $1, $2, $3, $4, $5, $6",
    // the same statements again as different texts (a cache key is the text as given)
    "SELECT $1;",
    " SELECT 1 ",
];
/// Type-list alphabet (index = `types` field of the ops), as OIDs of built-in types.
/// (the last two are long and differ in their first entry only)
/// (`705` is UNKNOWN: a list that ends in it is another key than the list without it)
pub const TYPELISTS: [&[u32]; 8] = [&[], &[23], &[25], &[20], &[23, 25], &[23, 25, 25, 25, 25, 25], &[20, 25, 25, 25, 25, 25], &[23, 705]];
/// Custom recycling SQL alphabet.
pub const CUSTOMS: [&str; 3] = ["SELECT 1", "DISCARD ALL", "SELECT 1; RESET ALL"];

pub const OID_TEXT: u32 = 25;

pub fn placeholders(sql: &str) -> usize {
    (1..=9).take_while(|n| sql.contains(&format!("${n}"))).count()
}

/// What the (scripted, like the real) server resolves the parameter types to:
/// the OIDs given in Parse, unspecified ones inferred as TEXT.
pub fn resolved_oids(sql: &str, given: &[u32]) -> Vec<u32> {
    let n = placeholders(sql).max(given.len());
    (0..n).map(|i| given.get(i).copied().unwrap_or(OID_TEXT)).collect()
}

#[derive(Clone, Debug, PartialEq, Eq, Serialize, Deserialize)]
pub enum Method {
    Fast,
    Verified,
    Clean,
    Custom(String),
}

impl Method {
    pub fn tag(&self) -> String {
        match self {
            Method::Fast => "Fast".into(),
            Method::Verified => "Verified".into(),
            Method::Clean => "Clean".into(),
            Method::Custom(s) => format!("Custom({s})"),
        }
    }
}

#[derive(Clone, Copy, Debug, PartialEq, Eq, Serialize, Deserialize)]
pub enum FaultKind {
    /// ErrorResponse instead of success for message `at`
    Error,
    /// drop the pipe when message `at` arrives, without replying
    DisconnectBefore,
    /// reply normally to message `at`, then drop the pipe
    DisconnectAfter,
    /// never reply to message `at` (and stop reading); the pipe stays open
    Stall,
    /// refuse the connection during startup (`at` is ignored)
    RefuseStartup,
}

impl FaultKind {
    pub fn tag(&self) -> &'static str {
        match self {
            FaultKind::Error => "error_response",
            FaultKind::DisconnectBefore => "disconnect_before_reply",
            FaultKind::DisconnectAfter => "disconnect_after_reply",
            FaultKind::Stall => "stall",
            FaultKind::RefuseStartup => "refuse_startup",
        }
    }
}

/// Server fault: connection `conn` (connect order, 0-based), frontend message index `at`
/// (tagged messages after startup, 0-based).
#[derive(Clone, Debug, PartialEq, Eq, Serialize, Deserialize)]
pub struct Fault {
    pub conn: u32,
    pub at: u32,
    pub kind: FaultKind,
}

#[derive(Clone, Copy, Debug, PartialEq, Eq, Serialize, Deserialize)]
pub enum Pred {
    KeepAll,
    DropAll,
    DropOdd,
    DropClosed,
}

#[derive(Clone, Debug, PartialEq, Eq, Serialize, Deserialize)]
pub enum Op {
    /// pool.get() into slot (skipped if the slot is occupied)
    Get { slot: u8 },
    /// drop whatever is in the slot (Object -> returned to the pool, taken client -> dropped)
    Return { slot: u8 },
    /// Object::take
    Take { slot: u8 },
    Resize { n: u8 },
    Retain { pred: Pred, keep: bool },
    Close,
    /// prepare_cached(sql)
    Prepare { slot: u8, sql: u8 },
    /// prepare_typed_cached(sql, types)
    PrepareTyped { slot: u8, sql: u8, types: u8 },
    /// two overlapping prepare_typed_cached calls for the same key on the same client (join!)
    PrepareJoin { slot: u8, sql: u8, types: u8 },
    /// execute a statement previously returned to this task (index modulo the list) on its client
    Use { slot: u8, stmt: u8 },
    CacheClear { slot: u8 },
    CacheRemove { slot: u8, sql: u8, types: u8 },
    /// pool.manager().statement_caches.clear()
    RegClear,
    /// pool.manager().statement_caches.remove(sql, types)
    RegRemove { sql: u8, types: u8 },
    /// keep a clone of `client.statement_cache` (public Arc) beyond the client's stay in the pool
    HoldCache { slot: u8 },
    /// server-side disconnect of connection `conn` now, then `settle` yields
    Kill { conn: u8, settle: u8 },
    Yield { n: u8 },
    Sleep { ms: u8 },
    /// every task of the run continues on the other helper OS thread from here on
    Migrate,
}

impl Op {
    pub fn kind(&self) -> &'static str {
        match self {
            Op::Get { .. } => "get",
            Op::Return { .. } => "return",
            Op::Take { .. } => "take",
            Op::Resize { .. } => "resize",
            Op::Retain { .. } => "retain",
            Op::Close => "close",
            Op::Prepare { .. } => "prepare",
            Op::PrepareTyped { .. } => "prepare_typed",
            Op::PrepareJoin { .. } => "prepare_join",
            Op::Use { .. } => "use",
            Op::CacheClear { .. } => "cache_clear",
            Op::CacheRemove { .. } => "cache_remove",
            Op::RegClear => "reg_clear",
            Op::RegRemove { .. } => "reg_remove",
            Op::HoldCache { .. } => "holdcache",
            Op::Kill { .. } => "kill",
            Op::Yield { .. } => "yield",
            Op::Sleep { .. } => "sleep",
            Op::Migrate => "migrate",
        }
    }
}

#[derive(Clone, Debug, PartialEq, Eq, Serialize, Deserialize)]
pub struct Scenario {
    pub method: Method,
    pub max_size: u8,
    pub recycle_timeout_ms: Option<u32>,
    pub wait_timeout_ms: Option<u32>,
    pub tasks: Vec<Vec<Op>>,
    pub faults: Vec<Fault>,
    /// the connector's task outlives the connection (it has more to do than to drive it), as a
    /// user supplied `Connect` implementation may
    #[serde(default)]
    pub lingering_conn_task: bool,
}

pub const SLOTS: usize = 2;

fn gen_key(rng: &mut Rng) -> (u8, u8) {
    // text 1 ("SELECT $1") dominates so that keys differing only in types are common
    let sql = rng.weighted(&[2, 8, 1, 1, 2, 2, 1]) as u8;
    let types = if sql == 4 { *rng.pick(&[0u8, 5, 5, 6, 6]) } else { rng.weighted(&[4, 3, 3, 1, 1, 1, 1, 2]) as u8 };
    (sql, types)
}

pub fn generate(rng: &mut Rng, thorough: bool) -> Scenario {
    // a share of the runs moves between two OS threads (thread-affine state would show)
    let migrate = rng.permille(100);
    let method = match rng.below(4) {
        0 => Method::Fast,
        1 => Method::Verified,
        2 => Method::Clean,
        _ => Method::Custom(rng.pick(&CUSTOMS).to_string()),
    };
    let ntasks = 1 + rng.weighted(&[3, 4, 2]);
    let max_size = 1 + rng.weighted(&[3, 4, 2]) as u8;
    let max_ops = if thorough { 16 } else { 10 };
    let mut tasks = Vec::new();
    for _ in 0..ntasks {
        let n = rng.range(3, max_ops);
        // optimistic guess of slot occupancy, only to make sequences meaningful
        let mut occ = [false; SLOTS];
        let mut nstmts = 0u32;
        let mut ops = Vec::new();
        for _ in 0..n {
            let slot = if rng.permille(800) { 0 } else { 1 } as u8;
            let s = slot as usize;
            let guided = rng.permille(900);
            let op = if guided && !occ.iter().any(|o| *o) && rng.permille(700) {
                occ[s] = true;
                Op::Get { slot }
            } else {
                let held = if guided {
                    (0..SLOTS).find(|i| occ[*i]).map(|i| i as u8)
                } else {
                    Some(slot)
                };
                let hs = held.unwrap_or(slot);
                match rng.weighted(&[
                    10, // get
                    12, // return
                    3,  // take
                    4,  // resize
                    3,  // retain
                    1,  // close
                    10, // prepare
                    16, // prepare_typed
                    8,  // use
                    3,  // cache_clear
                    4,  // cache_remove
                    5,  // reg_clear
                    5,  // reg_remove
                    3,  // holdcache
                    5,  // kill
                    5,  // yield
                    2,  // sleep
                ]) {
                    0 => {
                        occ[s] = true;
                        Op::Get { slot }
                    }
                    1 => {
                        occ[hs as usize] = false;
                        Op::Return { slot: hs }
                    }
                    2 => Op::Take { slot: hs },
                    3 => Op::Resize { n: rng.below(4) as u8 },
                    4 => Op::Retain {
                        pred: *rng.pick(&[Pred::KeepAll, Pred::DropAll, Pred::DropOdd, Pred::DropClosed]),
                        keep: rng.coin(),
                    },
                    5 => Op::Close,
                    6 => {
                        nstmts += 1;
                        Op::Prepare { slot: hs, sql: gen_key(rng).0 }
                    }
                    7 => {
                        nstmts += 1;
                        let (sql, types) = gen_key(rng);
                        if rng.below(100) < 20 {
                            Op::PrepareJoin { slot: hs, sql, types }
                        } else {
                            Op::PrepareTyped { slot: hs, sql, types }
                        }
                    }
                    8 => Op::Use { slot: hs, stmt: rng.below(nstmts.max(1) as usize) as u8 },
                    9 => Op::CacheClear { slot: hs },
                    10 => {
                        let (sql, types) = gen_key(rng);
                        Op::CacheRemove { slot: hs, sql, types }
                    }
                    11 => Op::RegClear,
                    12 => {
                        let (sql, types) = gen_key(rng);
                        Op::RegRemove { sql, types }
                    }
                    13 => Op::HoldCache { slot: hs },
                    14 => Op::Kill { conn: rng.below(3) as u8, settle: rng.below(7) as u8 },
                    15 => Op::Yield { n: 1 + rng.below(4) as u8 },
                    _ => Op::Sleep { ms: 1 + rng.below(60) as u8 },
                }
            };
            ops.push(op);
            if migrate && rng.permille(350) {
                ops.push(Op::Migrate);
            }
        }
        tasks.push(ops);
    }
    let nfaults = rng.weighted(&[4, 4, 2, 1]);
    let mut faults = Vec::new();
    for _ in 0..nfaults {
        let kind = match rng.weighted(&[5, 4, 4, 3, 1]) {
            0 => FaultKind::Error,
            1 => FaultKind::DisconnectBefore,
            2 => FaultKind::DisconnectAfter,
            3 => FaultKind::Stall,
            _ => FaultKind::RefuseStartup,
        };
        faults.push(Fault { conn: rng.below(3) as u32, at: rng.below(10) as u32, kind });
    }
    Scenario {
        method,
        max_size,
        recycle_timeout_ms: if rng.coin() { Some(50) } else { None },
        wait_timeout_ms: if rng.permille(300) { Some(100) } else { None },
        tasks,
        faults,
        lingering_conn_task: rng.permille(150),
    }
}

/// Small deterministic grid: every method x every fault kind landing on the first
/// message after hand-out / on the recycle check, around a prepare / return / get / prepare (hit) core.
pub fn grid() -> Vec<Scenario> {
    let methods = [
        Method::Fast,
        Method::Verified,
        Method::Clean,
        Method::Custom(CUSTOMS[0].into()),
        Method::Custom(CUSTOMS[2].into()),
    ];
    let kinds = [
        None,
        Some(FaultKind::Error),
        Some(FaultKind::DisconnectBefore),
        Some(FaultKind::DisconnectAfter),
        Some(FaultKind::Stall),
    ];
    let core = vec![
        Op::Get { slot: 0 },
        Op::PrepareTyped { slot: 0, sql: 1, types: 1 },
        Op::PrepareTyped { slot: 0, sql: 1, types: 2 },
        Op::Use { slot: 0, stmt: 0 },
        Op::Return { slot: 0 },
        Op::Get { slot: 0 },
        Op::PrepareTyped { slot: 0, sql: 1, types: 1 },
        Op::Use { slot: 0, stmt: 2 },
        Op::RegClear,
        Op::Prepare { slot: 0, sql: 1 },
        Op::Return { slot: 0 },
    ];
    let mut out = Vec::new();
    for m in &methods {
        for k in &kinds {
            for at in [0u32, 3, 9] {
                if k.is_none() && at != 0 {
                    continue;
                }
                for rt in [None, Some(50)] {
                    out.push(Scenario {
                        method: m.clone(),
                        max_size: 2,
                        recycle_timeout_ms: rt,
                        wait_timeout_ms: None,
                        tasks: vec![core.clone()],
                        faults: k.iter().map(|k| Fault { conn: 0, at, kind: *k }).collect(),
                        lingering_conn_task: false,
                    });
                }
            }
        }
    }
    out
}

pub fn shrink_candidates(sc: &Scenario) -> Vec<Scenario> {
    let mut out = Vec::new();
    if sc.lingering_conn_task {
        let mut c = sc.clone();
        c.lingering_conn_task = false;
        out.push(c);
    }
    // drop a whole client task
    if sc.tasks.len() > 1 {
        for t in 0..sc.tasks.len() {
            let mut c = sc.clone();
            let _ = c.tasks.remove(t);
            out.push(c);
        }
    }
    // drop all faults / one fault
    if sc.faults.len() > 1 {
        let mut c = sc.clone();
        c.faults.clear();
        out.push(c);
    }
    for f in 0..sc.faults.len() {
        let mut c = sc.clone();
        let _ = c.faults.remove(f);
        out.push(c);
    }
    // drop the second half / one op of a task
    for t in 0..sc.tasks.len() {
        let n = sc.tasks[t].len();
        if n > 3 {
            let mut c = sc.clone();
            c.tasks[t].truncate(n / 2);
            out.push(c);
        }
    }
    for t in 0..sc.tasks.len() {
        for i in (0..sc.tasks[t].len()).rev() {
            let mut c = sc.clone();
            let _ = c.tasks[t].remove(i);
            out.push(c);
        }
    }
    // simpler configuration
    if sc.wait_timeout_ms.is_some() {
        let mut c = sc.clone();
        c.wait_timeout_ms = None;
        out.push(c);
    }
    if sc.recycle_timeout_ms.is_some() {
        let mut c = sc.clone();
        c.recycle_timeout_ms = None;
        out.push(c);
    }
    if sc.max_size > 1 {
        let mut c = sc.clone();
        c.max_size -= 1;
        out.push(c);
    }
    if sc.method != Method::Fast {
        let mut c = sc.clone();
        c.method = Method::Fast;
        out.push(c);
    }
    // simpler ops / faults
    for t in 0..sc.tasks.len() {
        for i in 0..sc.tasks[t].len() {
            let simpler = match &sc.tasks[t][i] {
                Op::Yield { n } if *n > 1 => Some(Op::Yield { n: 1 }),
                Op::Sleep { ms } if *ms > 1 => Some(Op::Yield { n: 1 }),
                Op::Kill { conn, settle } if *settle > 0 => Some(Op::Kill { conn: *conn, settle: 0 }),
                Op::PrepareTyped { slot, sql, types: 0 } => Some(Op::Prepare { slot: *slot, sql: *sql }),
                Op::PrepareJoin { slot, sql, types } => Some(Op::PrepareTyped { slot: *slot, sql: *sql, types: *types }),
                Op::Get { slot } if *slot > 0 => Some(Op::Get { slot: 0 }),
                _ => None,
            };
            if let Some(op) = simpler {
                let mut c = sc.clone();
                c.tasks[t][i] = op;
                out.push(c);
            }
        }
    }
    for f in 0..sc.faults.len() {
        if sc.faults[f].at > 0 && sc.faults[f].kind != FaultKind::RefuseStartup {
            let mut c = sc.clone();
            c.faults[f].at -= 1;
            out.push(c);
        }
    }
    out
}

pub fn shape(sc: &Scenario) -> String {
    let tasks: Vec<String> = sc
        .tasks
        .iter()
        .map(|t| t.iter().map(|o| o.kind()).collect::<Vec<_>>().join(","))
        .collect();
    let faults: Vec<String> = sc.faults.iter().map(|f| format!("{}@c{}m{}", f.kind.tag(), f.conn, f.at)).collect();
    format!(
        "method={} max={} tasks=[{}] faults=[{}]{}",
        sc.method.tag(),
        sc.max_size,
        tasks.join(" | "),
        faults.join(","),
        if sc.lingering_conn_task { " lingering_conn_task" } else { "" }
    )
}
