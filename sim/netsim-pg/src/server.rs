//! Transport seam + scripted PostgreSQL server.
//!
//! `SimConnect` implements `deadpool_postgres::Connect`: every `connect()` makes an
//! in-memory duplex pipe, spawns one scripted server task on the far end and runs the
//! real `tokio_postgres` handshake (`connect_raw`) and `Connection` future on the near end,
//! exactly like `ConfigConnectImpl` does over a socket.

use std::{
    future::Future,
    pin::Pin,
    sync::{Arc, Mutex},
    task::{Context, Poll},
};

use bytes::{Buf, BytesMut};
use deadpool_postgres::Connect;
use futures_util::FutureExt;
use tokio::{
    io::{AsyncRead, AsyncReadExt, AsyncWrite, AsyncWriteExt, DuplexStream, ReadBuf},
    sync::Notify,
    task::JoinHandle,
};
use tokio_postgres::{Client as PgClient, Config as PgConfig, Error, NoTls};

use crate::scenario::{resolved_oids, FaultKind};
use crate::world::{MsgKind, Reply, World};

pub type W = Arc<Mutex<World>>;

pub struct SimConnect {
    pub w: W,
    pub linger: bool,
}

impl Connect for SimConnect {
    fn connect(
        &self,
        pg_config: &PgConfig,
    ) -> Pin<Box<dyn Future<Output = Result<(PgClient, JoinHandle<()>), Error>> + Send + '_>> {
        let w = self.w.clone();
        let linger = self.linger;
        let cfg = pg_config.clone();
        Box::pin(async move {
            let (near, far) = tokio::io::duplex(64 * 1024);
            // the server side "accepts": connection ids are assigned in connect order
            let (id, kill) = w.lock().unwrap().accept();
            drop(tokio::spawn(serve(w.clone(), id, far, kill)));
            let (client, connection) = cfg.connect_raw(near, NoTls).await?;
            let w2 = w.clone();
            let conn_task = tokio::spawn(async move {
                let r = connection.await;
                // the Connection (and with it the request receiver) is gone now:
                // `Client::is_closed()` reports true from here on
                w2.lock().unwrap().conn_task_done(id, r.is_err());
                if linger {
                    std::future::pending::<()>().await;
                }
            });
            Ok((client, conn_task))
        })
    }
}

// ---------------------------------------------------------------- identity

/// In-memory sink: swallows what `cancel_query_raw` writes.
struct Capture(Vec<u8>);

impl AsyncRead for Capture {
    fn poll_read(self: Pin<&mut Self>, _: &mut Context<'_>, _: &mut ReadBuf<'_>) -> Poll<std::io::Result<()>> {
        Poll::Ready(Ok(()))
    }
}
impl AsyncWrite for Capture {
    fn poll_write(mut self: Pin<&mut Self>, _: &mut Context<'_>, buf: &[u8]) -> Poll<std::io::Result<usize>> {
        self.0.extend_from_slice(buf);
        Poll::Ready(Ok(buf.len()))
    }
    fn poll_flush(self: Pin<&mut Self>, _: &mut Context<'_>) -> Poll<std::io::Result<()>> {
        Poll::Ready(Ok(()))
    }
    fn poll_shutdown(self: Pin<&mut Self>, _: &mut Context<'_>) -> Poll<std::io::Result<()>> {
        Poll::Ready(Ok(()))
    }
}

/// Which server-side connection does this client talk to? Identity comes from the
/// server: the scripted server puts `connection id + 1` into BackendKeyData.process_id and
/// tokio-postgres echoes it in the CancelRequest it writes to any stream we hand it.
/// No traffic on the real connection.
pub fn ident(c: &PgClient) -> u32 {
    let mut cap = Capture(Vec::with_capacity(16));
    let tok = c.cancel_token();
    let r = tok.cancel_query_raw(&mut cap, NoTls).now_or_never();
    assert!(matches!(r, Some(Ok(()))), "cancel_query_raw on the capture stream did not complete");
    assert!(cap.0.len() == 16, "unexpected CancelRequest length {}", cap.0.len());
    let pid = i32::from_be_bytes([cap.0[8], cap.0[9], cap.0[10], cap.0[11]]);
    (pid - 1) as u32
}

// ---------------------------------------------------------------- wire encoding (backend side)

fn put(out: &mut Vec<u8>, tag: u8, body: &[u8]) {
    out.push(tag);
    out.extend_from_slice(&((body.len() as i32 + 4).to_be_bytes()));
    out.extend_from_slice(body);
}
fn cstr(b: &mut Vec<u8>, s: &str) {
    b.extend_from_slice(s.as_bytes());
    b.push(0);
}
fn ready(out: &mut Vec<u8>) {
    put(out, b'Z', b"I");
}
fn param_status(out: &mut Vec<u8>, k: &str, v: &str) {
    let mut b = Vec::new();
    cstr(&mut b, k);
    cstr(&mut b, v);
    put(out, b'S', &b);
}
fn command_complete(out: &mut Vec<u8>, tag: &str) {
    let mut b = Vec::new();
    cstr(&mut b, tag);
    put(out, b'C', &b);
}
fn error_response(out: &mut Vec<u8>, code: &str, msg: &str) {
    let mut b = Vec::new();
    for (f, v) in [(b'S', "ERROR"), (b'V', "ERROR"), (b'C', code), (b'M', msg)] {
        b.push(f);
        cstr(&mut b, v);
    }
    b.push(0);
    put(out, b'E', &b);
}
fn param_description(out: &mut Vec<u8>, oids: &[u32]) {
    let mut b = Vec::new();
    b.extend_from_slice(&(oids.len() as i16).to_be_bytes());
    for o in oids {
        b.extend_from_slice(&o.to_be_bytes());
    }
    put(out, b't', &b);
}
fn row_description_one_int4(out: &mut Vec<u8>) {
    let mut b = Vec::new();
    b.extend_from_slice(&1i16.to_be_bytes());
    cstr(&mut b, "c");
    b.extend_from_slice(&0i32.to_be_bytes()); // table oid
    b.extend_from_slice(&0i16.to_be_bytes()); // column id
    b.extend_from_slice(&23u32.to_be_bytes()); // INT4
    b.extend_from_slice(&4i16.to_be_bytes());
    b.extend_from_slice(&(-1i32).to_be_bytes());
    b.extend_from_slice(&0i16.to_be_bytes());
    put(out, b'T', &b);
}

fn take_cstr(p: &mut &[u8]) -> String {
    let n = p.iter().position(|b| *b == 0).unwrap_or(p.len());
    let s = String::from_utf8_lossy(&p[..n]).into_owned();
    *p = &p[(n + 1).min(p.len())..];
    s
}

fn command_tag(stmt: &str) -> String {
    let w = stmt.split_whitespace().next().unwrap_or("").to_ascii_uppercase();
    match w.as_str() {
        "SELECT" => "SELECT 1".into(),
        "UPDATE" => "UPDATE 0".into(),
        _ => w,
    }
}

enum Next {
    Continue,
    Drop,
    Stall,
}

/// Handles one tagged frontend message under the world lock: logs it, applies the fault
/// script, updates the per-connection statement table and produces the reply bytes.
fn handle(w: &mut World, id: u32, tag: u8, mut p: &[u8], out: &mut Vec<u8>) -> Next {
    let c = id as usize;
    let idx = w.conns[c].nmsgs;
    w.conns[c].nmsgs += 1;
    // decode
    let kind = match tag {
        b'Q' => MsgKind::Query(take_cstr(&mut p)),
        b'P' => {
            let name = take_cstr(&mut p);
            let sql = take_cstr(&mut p);
            let n = if p.len() >= 2 { i16::from_be_bytes([p[0], p[1]]) as usize } else { 0 };
            let mut oids = Vec::new();
            for i in 0..n {
                let o = 2 + i * 4;
                if p.len() >= o + 4 {
                    oids.push(u32::from_be_bytes([p[o], p[o + 1], p[o + 2], p[o + 3]]));
                }
            }
            MsgKind::Parse { name, ord: 0, sql, oids }
        }
        b'D' => {
            let what = p.first().copied().unwrap_or(0);
            p = &p[1.min(p.len())..];
            MsgKind::Describe { what, name: take_cstr(&mut p) }
        }
        b'B' => {
            let _portal = take_cstr(&mut p);
            let name = take_cstr(&mut p);
            // resolve the name right away so that the log tells which statement was meant
            // even if a fault pre-empts the normal reply
            match w.conns[c].stmts.get(&name) {
                Some(st) => MsgKind::Bind { name, ord: Some(st.ord), sql: st.sql.clone(), oids: st.oids.clone() },
                None => MsgKind::Bind { name, ord: None, sql: String::new(), oids: vec![] },
            }
        }
        b'E' => MsgKind::Execute,
        b'C' => {
            p = &p[1.min(p.len())..];
            MsgKind::Close { name: take_cstr(&mut p) }
        }
        b'S' => MsgKind::Sync,
        b'X' => MsgKind::Terminate,
        t => MsgKind::Other(t),
    };
    let simple = matches!(kind, MsgKind::Query(_));
    let skipping = w.conns[c].skip && !matches!(kind, MsgKind::Sync | MsgKind::Terminate | MsgKind::Query(_));
    let fault = w.fault_at(id, idx);
    // faults that pre-empt normal processing
    match fault {
        Some(FaultKind::DisconnectBefore) => {
            w.fault_fired(id, idx, FaultKind::DisconnectBefore);
            w.server_msg(id, idx, kind, Reply::DropBefore);
            return Next::Drop;
        }
        Some(FaultKind::Stall) => {
            w.fault_fired(id, idx, FaultKind::Stall);
            w.server_msg(id, idx, kind, Reply::Stall);
            return Next::Stall;
        }
        Some(FaultKind::Error) if !skipping && !matches!(kind, MsgKind::Sync | MsgKind::Terminate) => {
            w.fault_fired(id, idx, FaultKind::Error);
            error_response(out, "XX000", "injected failure");
            if simple {
                ready(out);
            } else {
                w.conns[c].skip = true;
            }
            w.server_msg(id, idx, kind, Reply::FaultError);
            return Next::Continue;
        }
        _ => {}
    }
    if skipping {
        w.server_msg(id, idx, kind, Reply::Skipped);
        return Next::Continue;
    }
    // normal processing
    let mut reply = Reply::Ok;
    let mut next = Next::Continue;
    let kind = match kind {
        MsgKind::Query(sql) => {
            w.conns[c].skip = false;
            if sql.trim().is_empty() {
                put(out, b'I', &[]);
            } else {
                for st in sql.split(';').map(str::trim).filter(|s| !s.is_empty()) {
                    command_complete(out, &command_tag(st));
                }
            }
            ready(out);
            MsgKind::Query(sql)
        }
        MsgKind::Parse { name, sql, oids, .. } => {
            let ord = w.conns[c].register_stmt(&name, &sql, resolved_oids(&sql, &oids));
            put(out, b'1', &[]);
            MsgKind::Parse { name, ord, sql, oids }
        }
        MsgKind::Describe { what, name } => {
            match w.conns[c].stmts.get(&name) {
                Some(st) if what == b'S' => {
                    param_description(out, &st.oids);
                    if st.sql.trim_start().to_ascii_uppercase().starts_with("SELECT") {
                        row_description_one_int4(out);
                    } else {
                        put(out, b'n', &[]);
                    }
                }
                _ => {
                    error_response(out, "26000", "prepared statement does not exist");
                    w.conns[c].skip = true;
                    reply = Reply::GenuineError;
                }
            }
            MsgKind::Describe { what, name }
        }
        MsgKind::Bind { name, ord, sql, oids } => {
            if ord.is_some() {
                put(out, b'2', &[]);
            } else {
                error_response(out, "26000", "prepared statement does not exist");
                w.conns[c].skip = true;
                reply = Reply::GenuineError;
            }
            MsgKind::Bind { name, ord, sql, oids }
        }
        MsgKind::Execute => {
            command_complete(out, "SELECT 0");
            MsgKind::Execute
        }
        MsgKind::Close { name } => {
            let _ = w.conns[c].stmts.remove(&name);
            put(out, b'3', &[]);
            MsgKind::Close { name }
        }
        MsgKind::Sync => {
            w.conns[c].skip = false;
            ready(out);
            MsgKind::Sync
        }
        MsgKind::Terminate => {
            next = Next::Drop;
            MsgKind::Terminate
        }
        MsgKind::Other(t) => {
            error_response(out, "08P01", "unsupported frontend message");
            w.conns[c].skip = true;
            reply = Reply::GenuineError;
            MsgKind::Other(t)
        }
    };
    if fault == Some(FaultKind::DisconnectAfter) {
        w.fault_fired(id, idx, FaultKind::DisconnectAfter);
        reply = Reply::DropAfter;
        next = Next::Drop;
    }
    w.server_msg(id, idx, kind, reply);
    next
}

/// One scripted server connection.
async fn serve(w: W, id: u32, mut stream: DuplexStream, kill: Arc<Notify>) {
    let mut buf = BytesMut::with_capacity(1024);
    let mut started = false;
    let mut out: Vec<u8> = Vec::with_capacity(256);
    loop {
        // process every complete message in the buffer
        loop {
            out.clear();
            let next;
            if !started {
                if buf.len() < 4 {
                    break;
                }
                let len = i32::from_be_bytes([buf[0], buf[1], buf[2], buf[3]]) as usize;
                if buf.len() < len {
                    break;
                }
                buf.advance(len);
                started = true;
                let refuse = w.lock().unwrap().startup(id);
                if refuse {
                    error_response(&mut out, "53300", "injected: too many connections");
                    next = Next::Drop;
                } else {
                    put(&mut out, b'R', &0i32.to_be_bytes());
                    param_status(&mut out, "client_encoding", "UTF8");
                    param_status(&mut out, "server_version", "16.0");
                    param_status(&mut out, "standard_conforming_strings", "on");
                    let mut k = Vec::new();
                    k.extend_from_slice(&(id as i32 + 1).to_be_bytes());
                    k.extend_from_slice(&0x5ec2e7i32.to_be_bytes());
                    put(&mut out, b'K', &k);
                    ready(&mut out);
                    next = Next::Continue;
                }
            } else {
                if buf.len() < 5 {
                    break;
                }
                let len = i32::from_be_bytes([buf[1], buf[2], buf[3], buf[4]]) as usize;
                if buf.len() < 1 + len {
                    break;
                }
                let tag = buf[0];
                let payload = buf.split_to(1 + len);
                next = handle(&mut w.lock().unwrap(), id, tag, &payload[5..], &mut out);
            }
            if !out.is_empty() && stream.write_all(&out).await.is_err() {
                w.lock().unwrap().server_end(id, "client gone (write failed)");
                return;
            }
            match next {
                Next::Continue => {}
                Next::Drop => {
                    w.lock().unwrap().server_end(id, "server closes the connection");
                    return;
                }
                Next::Stall => {
                    // hold the pipe open, never answer; only a kill ends this
                    kill.notified().await;
                    w.lock().unwrap().server_end(id, "killed while stalled");
                    return;
                }
            }
        }
        tokio::select! {
            biased;
            _ = kill.notified() => {
                w.lock().unwrap().server_end(id, "killed");
                return;
            }
            r = stream.read_buf(&mut buf) => {
                match r {
                    Ok(0) | Err(_) => {
                        w.lock().unwrap().server_end(id, "client closed the pipe");
                        return;
                    }
                    Ok(_) => {}
                }
            }
        }
    }
}
