//! Shared state of one run: server-side logs and statement tables, event log / hashes,
//! the reference model and the oracles.

use std::{
    collections::{BTreeMap, BTreeSet},
    sync::Arc,
};

use deadpool_postgres::{ClientWrapper, Object, Pool, StatementCache};
use simcore::{rng::Hasher, Violation};
use tokio::sync::Notify;

use crate::scenario::*;
use crate::server::ident;

pub type Key = (u8, u8); // (index into SQLS, index into TYPELISTS)

/// The clean-up script as documented for `RecyclingMethod::Clean`.
pub const CLEAN_DOC: [&str; 7] = [
    "CLOSE ALL",
    "SET SESSION AUTHORIZATION DEFAULT",
    "RESET ALL",
    "UNLISTEN *",
    "SELECT pg_advisory_unlock_all()",
    "DISCARD TEMP",
    "DISCARD SEQUENCES",
];

#[derive(Clone, Debug)]
pub enum MsgKind {
    Query(String),
    Parse { name: String, ord: u32, sql: String, oids: Vec<u32> },
    Describe { what: u8, name: String },
    /// `ord == None`: the named statement does not exist on this connection
    Bind { name: String, ord: Option<u32>, sql: String, oids: Vec<u32> },
    Execute,
    Close { name: String },
    Sync,
    Terminate,
    Other(u8),
}

#[derive(Clone, Copy, Debug, PartialEq, Eq)]
pub enum Reply {
    Ok,
    FaultError,
    GenuineError,
    DropBefore,
    DropAfter,
    Stall,
    Skipped,
}

impl Reply {
    /// did the client get a success answer to this message?
    pub fn answered_ok(self) -> bool {
        matches!(self, Reply::Ok | Reply::DropAfter)
    }
}

#[derive(Clone, Debug)]
pub struct Msg {
    pub kind: MsgKind,
    pub reply: Reply,
}

impl Msg {
    /// Query / Parse / Bind (and unknown tags) are the messages the oracles account for;
    /// Describe / Execute / Sync ride along, Close+Sync is tokio-postgres housekeeping
    /// for dropped `Statement`s and may appear at any time.
    pub fn meaningful(&self) -> bool {
        matches!(self.kind, MsgKind::Query(_) | MsgKind::Parse { .. } | MsgKind::Bind { .. } | MsgKind::Other(_))
    }
}

pub struct Stmt {
    pub ord: u32,
    pub sql: String,
    pub oids: Vec<u32>,
}

pub struct Conn {
    pub kill: Arc<Notify>,
    // ---- server side
    pub log: Vec<Msg>,
    /// log index up to which the traffic has been accounted for by an oracle
    pub cursor: usize,
    pub nmsgs: u32,
    pub stmts: BTreeMap<String, Stmt>,
    /// statement names are process-global in tokio-postgres ("s<N>"), hence not
    /// deterministic; logs and hashes use the per-connection ordinal instead
    pub ords: BTreeMap<String, u32>,
    pub skip: bool,
    pub server_closed: bool,
    /// the tokio-postgres Connection future has finished (it saw the disconnect)
    pub conn_done: bool,
    // ---- model
    /// keys the statement cache of this client must hold -> hand-out count at insertion
    pub keys: BTreeMap<Key, u32>,
    pub handouts: u32,
    /// left the pool for good: taken, removed by retain, or dropped
    pub released: bool,
    /// dropped (nobody holds the client any more)
    pub gone: bool,
    /// a registry op ran while the client was in flight inside a get(): whether it was still
    /// attached is not observable, so a held cache handle is no longer judged
    pub fuzzy: bool,
    /// sits (as far as the harness saw) idle in the pool since its last return
    pub idle_since: bool,
}

impl Conn {
    pub fn register_stmt(&mut self, name: &str, sql: &str, oids: Vec<u32>) -> u32 {
        let n = self.ords.len() as u32;
        let ord = *self.ords.entry(name.to_string()).or_insert(n);
        let _ = self.stmts.insert(name.to_string(), Stmt { ord, sql: sql.to_string(), oids });
        ord
    }
}

#[derive(Clone)]
pub enum Held {
    Obj(Arc<Object>),
    Taken(Arc<ClientWrapper>),
}

impl Held {
    pub fn cw(&self) -> &ClientWrapper {
        match self {
            Held::Obj(o) => o,
            Held::Taken(c) => c,
        }
    }
}

#[derive(Clone, Copy, Debug, PartialEq, Eq)]
pub enum Loc {
    HeldObj,
    Idle,
    Taken,
    Removed,
    Gone,
    /// neither held nor idle while some get() is in flight: being created / recycled, or already dropped
    Unknown,
}

impl Loc {
    pub fn owned(self) -> bool {
        matches!(self, Loc::HeldObj | Loc::Idle)
    }
}

pub enum Expect {
    Nothing,
    Exact(String),
    Script(Vec<String>),
}

pub type MigrateCtl = Arc<(std::sync::atomic::AtomicBool, std::sync::Mutex<Option<std::task::Waker>>)>;

pub struct World {
    pub migrate: MigrateCtl,
    pub method: Method,
    pub expect: Expect,
    pub trace_on: bool,
    pub faults: BTreeMap<(u32, u32), FaultKind>,
    pub refuse: BTreeSet<u32>,
    // ---- event log
    pub hash: Hasher,
    pub ileave: Hasher,
    pub trace: Vec<String>,
    pub steps: u64,
    pub ops: u64,
    pub fired: BTreeMap<String, u64>,
    pub probes: BTreeMap<String, u64>,
    pub violation: Option<Violation>,
    pub nontrivial: bool,
    // ---- server
    pub conns: Vec<Conn>,
    // ---- harness
    pub held: Vec<Vec<Option<(u32, Held)>>>,
    pub removed: Vec<(u32, ClientWrapper)>,
    pub handles: BTreeMap<u32, Arc<StatementCache>>,
    pub gets_in_flight: u32,
    pub awaiting_ops: u32,
}

fn norm_script(sql: &str) -> Vec<String> {
    sql.split(';').map(|s| s.split_whitespace().collect::<Vec<_>>().join(" ")).filter(|s| !s.is_empty()).collect()
}

impl World {
    pub fn new(sc: &Scenario, trace_on: bool) -> World {
        let mut faults = BTreeMap::new();
        let mut refuse = BTreeSet::new();
        for f in &sc.faults {
            if f.kind == FaultKind::RefuseStartup {
                let _ = refuse.insert(f.conn);
            } else {
                let _ = faults.insert((f.conn, f.at), f.kind);
            }
        }
        World {
            migrate: Arc::new((std::sync::atomic::AtomicBool::new(false), std::sync::Mutex::new(None))),
            method: sc.method.clone(),
            expect: match &sc.method {
                Method::Fast => Expect::Nothing,
                Method::Verified => Expect::Exact(String::new()),
                Method::Clean => Expect::Script(CLEAN_DOC.iter().map(|s| s.to_string()).collect()),
                Method::Custom(s) => Expect::Exact(s.clone()),
            },
            trace_on,
            faults,
            refuse,
            hash: Hasher::default(),
            ileave: Hasher::default(),
            trace: Vec::new(),
            steps: 0,
            ops: 0,
            fired: BTreeMap::new(),
            probes: BTreeMap::new(),
            violation: None,
            nontrivial: false,
            conns: Vec::new(),
            held: sc.tasks.iter().map(|_| (0..SLOTS).map(|_| None).collect()).collect(),
            removed: Vec::new(),
            handles: BTreeMap::new(),
            gets_in_flight: 0,
            awaiting_ops: 0,
        }
    }

    // ------------------------------------------------------------ event log

    /// Every event goes through here: hashed, counted and (optionally) traced.
    pub fn ev(&mut self, line: String) {
        self.steps += 1;
        self.hash.str(&line);
        if self.trace_on {
            self.trace.push(format!("{:4}  {}", self.steps, line));
        }
    }
    /// Trace-only detail (not hashed: may contain process-global statement names).
    pub fn note(&mut self, line: String) {
        if self.trace_on {
            self.trace.push(format!("      # {line}"));
        }
    }
    pub fn probe(&mut self, name: &str) {
        *self.probes.entry(name.to_string()).or_insert(0) += 1;
    }
    pub fn violate(&mut self, clause: &str, detail: String) {
        if self.violation.is_none() {
            self.ev(format!("VIOLATION [{clause}] {detail}"));
            self.violation = Some(Violation::at("C16", clause, detail, self.steps));
        }
    }
    pub fn harness_error(&mut self, detail: String) {
        if self.violation.as_ref().map(|v| v.property != "HARNESS").unwrap_or(true) {
            self.violation = Some(Violation::at("HARNESS", "harness", detail, self.steps));
        }
    }

    // ------------------------------------------------------------ server side

    pub fn accept(&mut self) -> (u32, Arc<Notify>) {
        let id = self.conns.len() as u32;
        let kill = Arc::new(Notify::new());
        self.conns.push(Conn {
            kill: kill.clone(),
            log: Vec::new(),
            cursor: 0,
            nmsgs: 0,
            stmts: BTreeMap::new(),
            ords: BTreeMap::new(),
            skip: false,
            server_closed: false,
            conn_done: false,
            keys: BTreeMap::new(),
            handouts: 0,
            released: false,
            gone: false,
            fuzzy: false,
            idle_since: false,
        });
        self.ev(format!("c{id} accept"));
        (id, kill)
    }

    /// Startup packet seen; returns whether to refuse the connection.
    pub fn startup(&mut self, id: u32) -> bool {
        let refuse = self.refuse.contains(&id);
        if refuse {
            *self.fired.entry(FaultKind::RefuseStartup.tag().into()).or_insert(0) += 1;
            self.ileave.str(FaultKind::RefuseStartup.tag());
            self.nontrivial = true;
            self.conns[id as usize].server_closed = true;
        }
        self.ev(format!("c{id} <- Startup{}", if refuse { " FAULT refuse_startup" } else { "" }));
        refuse
    }

    pub fn fault_at(&self, id: u32, idx: u32) -> Option<FaultKind> {
        self.faults.get(&(id, idx)).copied()
    }

    pub fn fault_fired(&mut self, id: u32, idx: u32, k: FaultKind) {
        *self.fired.entry(k.tag().into()).or_insert(0) += 1;
        self.ileave.str(k.tag());
        self.nontrivial = true;
        self.ev(format!("c{id} FAULT {} at message {idx}", k.tag()));
    }

    pub fn server_msg(&mut self, id: u32, idx: u32, kind: MsgKind, reply: Reply) {
        let line = match &kind {
            MsgKind::Query(s) => format!("Query {s:?}"),
            MsgKind::Parse { ord, sql, oids, .. } => format!("Parse stmt#{ord} {sql:?} {oids:?}"),
            MsgKind::Describe { what, .. } => format!("Describe {}", *what as char),
            MsgKind::Bind { ord, sql, oids, .. } => match ord {
                Some(o) => format!("Bind stmt#{o} {sql:?} {oids:?}"),
                None => "Bind <statement unknown on this connection>".into(),
            },
            MsgKind::Execute => "Execute".into(),
            // which statement gets closed first after a cache clear() follows HashMap
            // iteration order inside deadpool-postgres: keep the ordinal out of the hash
            MsgKind::Close { .. } => "Close".into(),
            MsgKind::Sync => "Sync".into(),
            MsgKind::Terminate => "Terminate".into(),
            MsgKind::Other(t) => format!("Other({t})"),
        };
        self.ev(format!("c{id} <- [{idx}] {line} -> {reply:?}"));
        match &kind {
            MsgKind::Parse { name, .. } | MsgKind::Bind { name, .. } | MsgKind::Close { name } => {
                let ord = self.conns[id as usize].ords.get(name).copied();
                self.note(format!("wire statement name {name:?} (stmt#{ord:?})"));
            }
            _ => {}
        }
        self.conns[id as usize].log.push(Msg { kind, reply });
    }

    pub fn server_end(&mut self, id: u32, why: &str) {
        self.conns[id as usize].server_closed = true;
        self.ev(format!("c{id} server task ends: {why}"));
    }

    pub fn conn_task_done(&mut self, id: u32, err: bool) {
        self.conns[id as usize].conn_done = true;
        self.ev(format!("c{id} client connection task finished ({})", if err { "error" } else { "clean" }));
    }

    pub fn total_msgs(&self) -> usize {
        self.conns.iter().map(|c| c.log.len()).sum()
    }

    /// Unaccounted meaningful messages of a connection.
    pub fn segment(&self, c: u32) -> Vec<Msg> {
        let cn = &self.conns[c as usize];
        cn.log[cn.cursor..].iter().filter(|m| m.meaningful()).cloned().collect()
    }
    pub fn advance(&mut self, c: u32) {
        let cn = &mut self.conns[c as usize];
        cn.cursor = cn.log.len();
    }

    /// Does the segment consist of exactly the documented recycle check (or a prefix of it)?
    /// Returns (is_exact, is_prefix, all_answered_ok).
    pub fn match_recycle(&self, seg: &[Msg]) -> (bool, bool, bool) {
        let ok = seg.iter().all(|m| m.reply.answered_ok());
        let one = |m: &Msg, f: &dyn Fn(&str) -> bool| matches!(&m.kind, MsgKind::Query(s) if f(s));
        match &self.expect {
            Expect::Nothing => (seg.is_empty(), seg.is_empty(), ok),
            Expect::Exact(sql) => {
                let exact = seg.len() == 1 && one(&seg[0], &|s| s == sql);
                (exact, exact || seg.is_empty(), ok)
            }
            Expect::Script(stmts) => {
                let exact = seg.len() == 1 && one(&seg[0], &|s| &norm_script(s) == stmts);
                (exact, exact || seg.is_empty(), ok)
            }
        }
    }

    pub fn describe_seg(seg: &[Msg]) -> String {
        let v: Vec<String> = seg
            .iter()
            .map(|m| match &m.kind {
                MsgKind::Query(s) => format!("Query({s:?})->{:?}", m.reply),
                MsgKind::Parse { sql, oids, .. } => format!("Parse({sql:?},{oids:?})->{:?}", m.reply),
                MsgKind::Bind { ord, sql, oids, .. } => format!("Bind(stmt#{ord:?},{sql:?},{oids:?})->{:?}", m.reply),
                k => format!("{k:?}"),
            })
            .collect();
        format!("[{}]", v.join(", "))
    }

    pub fn describe_expect(&self) -> String {
        match &self.expect {
            Expect::Nothing => "no message".into(),
            Expect::Exact(s) => format!("one Query({s:?})"),
            Expect::Script(_) => "one Query with the documented clean-up script".into(),
        }
    }

    // ------------------------------------------------------------ model: where is each client?

    /// Idle clients as the pool sees them: (connection id, cache size), queue order.
    pub fn idle_snapshot(pool: &Pool) -> Vec<(u32, usize)> {
        let mut v = Vec::new();
        let r = pool.verif_snapshot(&mut |cw: &ClientWrapper, _| v.push((ident(cw), cw.statement_cache.size())));
        assert!(r.is_some(), "pool slots locked at an op boundary");
        v
    }

    pub fn loc(&self, c: u32, idle: &[(u32, usize)]) -> Loc {
        for t in &self.held {
            for s in t.iter().flatten() {
                if s.0 == c {
                    return match s.1 {
                        Held::Obj(_) => Loc::HeldObj,
                        Held::Taken(_) => Loc::Taken,
                    };
                }
            }
        }
        if self.removed.iter().any(|r| r.0 == c) {
            return Loc::Removed;
        }
        if idle.iter().any(|i| i.0 == c) {
            return Loc::Idle;
        }
        if self.conns[c as usize].gone || self.gets_in_flight == 0 {
            Loc::Gone
        } else {
            Loc::Unknown
        }
    }

    /// Marks connection `c` as dropped (observed synchronously: resize / close / return / retain).
    pub fn mark_gone(&mut self, c: u32, why: &str) {
        let cn = &mut self.conns[c as usize];
        if !cn.gone {
            cn.gone = true;
            cn.released = true;
            self.ev(format!("model: c{c} left the pool and was dropped ({why})"));
        }
    }

    /// Registry op on the model: reaches exactly the clients the pool owns.
    pub fn model_registry(&mut self, pool: &Pool, remove: Option<Key>) {
        let idle = Self::idle_snapshot(pool);
        for c in 0..self.conns.len() as u32 {
            let loc = self.loc(c, &idle);
            let had = !self.conns[c as usize].keys.is_empty();
            match loc {
                Loc::HeldObj | Loc::Idle | Loc::Unknown => {
                    if loc == Loc::Unknown {
                        self.conns[c as usize].fuzzy = true;
                    }
                    if loc == Loc::HeldObj && had {
                        self.probe("registry_op_reached_checked_out_client");
                    }
                    if loc == Loc::Idle && had {
                        self.probe("registry_op_reached_idle_client");
                    }
                    match remove {
                        None => self.conns[c as usize].keys.clear(),
                        Some(k) => {
                            let _ = self.conns[c as usize].keys.remove(&k);
                        }
                    }
                }
                Loc::Taken if had => self.probe("take_then_registry_op"),
                Loc::Removed if had => self.probe("retain_removed_then_registry_op"),
                Loc::Gone if had && self.handles.contains_key(&c) => self.probe("released_then_registry_op_with_handle"),
                _ => {}
            }
        }
    }

    // ------------------------------------------------------------ oracles run after every op

    /// `registry`: the audit follows a registry op (selects the clause a size mismatch is reported under).
    pub fn audit(&mut self, pool: &Pool, registry: bool, end: bool) {
        if self.violation.is_some() {
            return;
        }
        let idle = Self::idle_snapshot(pool);
        // 1. bookkeeping: clients that are neither held nor idle while no get() is in flight are gone
        for c in 0..self.conns.len() as u32 {
            if !self.conns[c as usize].gone && self.loc(c, &idle) == Loc::Gone {
                let seg = self.segment(c);
                if seg.iter().any(|m| !m.reply.answered_ok()) {
                    self.probe("recycle_fail_discard");
                }
                if self.conns[c as usize].conn_done && self.conns[c as usize].handouts > 0 {
                    self.probe("closed_client_rejected");
                }
                self.mark_gone(c, "discarded inside get()");
            }
        }
        // 2. size() == number of cached keys, for every cache we can see
        let mut seen: Vec<(u32, usize, &'static str)> = Vec::new();
        for t in &self.held {
            for (c, h) in t.iter().flatten() {
                seen.push((*c, h.cw().statement_cache.size(), "checked-out/taken client"));
            }
        }
        for (c, cw) in &self.removed {
            seen.push((*c, cw.statement_cache.size(), "client removed by retain"));
        }
        for (c, n) in &idle {
            seen.push((*c, *n, "idle client"));
        }
        for (c, h) in &self.handles {
            seen.push((*c, h.size(), "held cache handle"));
        }
        for (c, size, what) in seen {
            let loc = self.loc(c, &idle);
            let cn = &self.conns[c as usize];
            if cn.fuzzy && matches!(loc, Loc::Gone | Loc::Unknown) {
                continue;
            }
            if what == "held cache handle" && loc == Loc::Gone {
                self.probe("handle_on_released_client_checked");
            }
            let want = self.conns[c as usize].keys.len();
            if size != want {
                let clause = if !registry {
                    "size_equals_keys"
                } else if loc.owned() {
                    "registry_reaches_owned_clients"
                } else {
                    "registry_skips_released_clients"
                };
                let keys: Vec<String> = self.conns[c as usize].keys.keys().map(|k| key_str(*k)).collect();
                self.violate(
                    clause,
                    format!(
                        "{what} c{c} ({loc:?}): statement_cache.size() = {size}, model holds {want} key(s) {keys:?}{}",
                        if registry { " after the registry operation" } else { "" }
                    ),
                );
                return;
            }
        }
        // 3. traffic on connections nobody is operating on
        for c in 0..self.conns.len() as u32 {
            let loc = self.loc(c, &idle);
            if matches!(loc, Loc::HeldObj | Loc::Taken) && !end {
                continue; // audited by the ops of the holder
            }
            let seg = self.segment(c);
            if seg.is_empty() {
                continue;
            }
            let (_, prefix, ok) = self.match_recycle(&seg);
            let was_idle = self.conns[c as usize].idle_since;
            match loc {
                // popped by a get(): this is its one recycle check. Either the get is still in
                // flight (judged at hand-out) or the client was discarded (failed check / cancelled get).
                Loc::Unknown | Loc::Gone if prefix && was_idle => {
                    if loc == Loc::Gone {
                        self.advance(c);
                    }
                }
                Loc::Idle if prefix && was_idle && !ok => {
                    self.violate(
                        "failed_check_discards",
                        format!("c{c} is idle in the pool although its recycle check failed: {}", Self::describe_seg(&seg)),
                    );
                    return;
                }
                _ => {
                    self.violate(
                        "recycle_check_exact",
                        format!(
                            "c{c} ({loc:?}) saw {} outside any client operation; a recycled connection may only see {}",
                            Self::describe_seg(&seg),
                            self.describe_expect()
                        ),
                    );
                    return;
                }
            }
        }
    }
}

pub fn key_str(k: Key) -> String {
    format!("({:?}, {:?})", SQLS[k.0 as usize % SQLS.len()], TYPELISTS[k.1 as usize % TYPELISTS.len()])
}
