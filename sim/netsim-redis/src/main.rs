//! netsim-redis — deterministic network simulation of deadpool-redis (engine E2), property C17.
//!
//!   netsim-redis check C17 [--tier quick|thorough] [--secs S] [--runs N] [--workers N]
//!   netsim-redis replay <file> [--quiet]
//!   netsim-redis selfcheck C17 [--runs N]
//!
//! Exit codes: 0 property held on everything explored; 1 violation (a line
//! `VIOLATION property=<id> replay=<path>` is printed); 2 harness error.

mod run;
mod scenario;
mod world;

use serde_json::json;
use simcore::cli::*;
use simcore::common::*;
use simcore::rng;

fn meta() -> PropMeta {
    PropMeta {
        level: "exploration",
        quick_secs: 20.0,
        thorough_secs: 300.0,
        rule: "each evaluation = one seeded scenario (pool max_size / queue mode / recycle timeout, 1..3 client op lists of get / return / take / WATCH / command / sleep, per-recycle server reply script) executed on a current-thread tokio runtime with paused clock against scripted RESP server tasks, every hand-out and every quiescent pool state checked; scenarios containing a take are executed twice (Connection::take and Object::take) and compared; distinct = distinct hash of the per-run sequence (op kind, result class, recycle reply kind); non-trivial = at least one non-correct recycle reply or idle disconnect fired, or a connection was reused after WATCH state had been left on it, or operations of two client tasks overlapped",
    }
}

fn real_vs_stub() -> serde_json::Value {
    json!({
        "real": [
            "deadpool_redis::{Manager (create via guarded connector seam, recycle unchanged), Connection, Pool}",
            "deadpool::managed (Pool, Object, timeouts, queue modes)",
            "deadpool_runtime::Runtime::timeout (Tokio1 branch)",
            "redis 0.28 MultiplexedConnection, pipeline driver, RESP codec (over tokio::io::duplex)",
            "tokio current_thread scheduler and time driver on a paused clock"
        ],
        "simulated": [
            "TCP connect + socket (in-memory duplex pipe per connection)",
            "Redis server (scripted RESP2 task per connection: CLIENT/SELECT/WATCH/UNWATCH/PING/GET/SET and injected replies)",
            "wall clock (paused tokio clock, auto-advance)"
        ],
        "not_exercised": ["async-std runtime branch", "cluster / sentinel managers", "TLS", "RESP3 / HELLO"]
    })
}

fn assumptions() -> Vec<String> {
    vec![
        "the connector seam replaces only Client::get_multiplexed_async_connection_with_config; the database number of the connection info is used to carry the server-side connection number (adds a SELECT to the set-up pipeline)".into(),
        "task interleaving is the FIFO order of a current-thread tokio runtime: deterministic, preemption only at awaits; no multi-thread races are explored here".into(),
        "bounded exploration by seeded sampling: a clean batch is evidence within the stated bounds, not proof".into(),
        "an error reply to UNWATCH followed by a correct echo is accepted with either outcome (discard or reuse without leftover WATCH state); the property text only fixes the outcome for the PING reply".into(),
    ]
}

fn check(id: &str, args: &[String]) -> i32 {
    if id != "C17" {
        eprintln!("harness error: unknown property {id}");
        return 2;
    }
    let tier = arg_val(args, "--tier")
        .or_else(|| std::env::var("VERIF_TIER").ok())
        .unwrap_or_else(|| "quick".into());
    let thorough = tier == "thorough";
    let seed: u64 = std::env::var("VERIF_SEED")
        .ok()
        .and_then(|s| s.parse().ok())
        .unwrap_or(20260926);
    let m = meta();
    let secs = arg_val(args, "--secs")
        .and_then(|s| s.parse().ok())
        .unwrap_or(if thorough { m.thorough_secs } else { m.quick_secs });
    let max_runs = arg_val(args, "--runs")
        .and_then(|s| s.parse().ok())
        .unwrap_or(u64::MAX / 4);
    let workers = arg_val(args, "--workers")
        .and_then(|s| s.parse().ok())
        .unwrap_or_else(|| std::thread::available_parallelism().map(|n| n.get()).unwrap_or(4));
    let vd = verif_dir();
    let known = load_known(&vd.join("known_findings.json"));
    let cfg = BatchCfg {
        profile: id.to_string(),
        seed,
        thorough,
        max_runs,
        secs,
        workers,
        known,
        corpus_dir: Some(vd.join("corpus").join(id)),
    };
    let h = run::RedisC17;
    let r = run_batch(&h, &cfg);
    finish(&h, id, &tier, seed, &m, r, real_vs_stub(), assumptions())
}

fn replay(path: &str, quiet: bool) -> i32 {
    let txt = match std::fs::read_to_string(path) {
        Ok(t) => t,
        Err(e) => {
            eprintln!("harness error: cannot read {path}: {e}");
            return 2;
        }
    };
    let v: serde_json::Value = match serde_json::from_str(&txt) {
        Ok(v) => v,
        Err(e) => {
            eprintln!("harness error: {e}");
            return 2;
        }
    };
    match v["harness"].as_str().unwrap_or("") {
        "netsim-redis" => {
            let rf: ReplayFile<scenario::Scenario> = match serde_json::from_value(v) {
                Ok(r) => r,
                Err(e) => {
                    eprintln!("harness error: {e}");
                    return 2;
                }
            };
            do_replay(&run::RedisC17, &rf, path, quiet)
        }
        other => {
            eprintln!("harness error: unknown harness {other:?} in replay file");
            2
        }
    }
}

/// Determinism proof on a sample: every seed is run twice, on different worker
/// threads (16 workers in index order, then 5 workers in reverse order); the
/// event-log hashes and verdicts must agree.
fn selfcheck(id: &str, args: &[String]) -> i32 {
    use std::sync::atomic::{AtomicU64, Ordering};
    if id != "C17" {
        eprintln!("harness error: unknown property {id}");
        return 2;
    }
    let runs: u64 = arg_val(args, "--runs").and_then(|s| s.parse().ok()).unwrap_or(10_000);
    let seed: u64 = std::env::var("VERIF_SEED")
        .ok()
        .and_then(|s| s.parse().ok())
        .unwrap_or(20260926);
    let h = run::RedisC17;
    let pass = |nw: usize, reverse: bool| -> Vec<(u64, u64, Option<String>)> {
        let out = std::sync::Mutex::new(vec![(0u64, 0u64, None); runs as usize]);
        let next = AtomicU64::new(0);
        std::thread::scope(|s| {
            for _ in 0..nw {
                s.spawn(|| loop {
                    let k = next.fetch_add(1, Ordering::SeqCst);
                    if k >= runs {
                        break;
                    }
                    let i = if reverse { runs - 1 - k } else { k };
                    let mut rng = rng::Rng::new(rng::mix(&[seed, 0x5e1f, i]));
                    let sc = h.generate(&mut rng, id, i % 2 == 0);
                    let o = h.run(&sc, None, false);
                    // and once more with tracing on: the hash must not depend on it
                    let o2 = h.run(&sc, None, true);
                    let mut sig = o.violation.as_ref().map(|v| v.signature());
                    if o2.log_hash != o.log_hash {
                        sig = Some("TRACE-MISMATCH".into());
                    }
                    out.lock().unwrap()[i as usize] = (o.log_hash, o.ileave, sig);
                });
            }
        });
        out.into_inner().unwrap()
    };
    let a = pass(16, false);
    let b = pass(5, true);
    let mut bad = 0;
    for i in 0..runs as usize {
        if a[i] != b[i] || a[i].2.as_deref() == Some("TRACE-MISMATCH") {
            if bad < 5 {
                eprintln!("selfcheck: run {i} differs: {:?} vs {:?}", a[i], b[i]);
            }
            bad += 1;
        }
    }
    if bad > 0 {
        eprintln!("harness error: {bad} of {runs} runs are not deterministic");
        return 2;
    }
    println!("selfcheck {id}: {runs} seeds x 2 runs (different workers) identical");
    0
}

/// Debug aid: `show <run_index> [thorough]` prints scenario and trace of one seeded run of `check`;
/// `show --file <scenario.json>` runs a hand-written scenario.
fn show(args: &[String]) -> i32 {
    let h = run::RedisC17;
    let sc = if args[0] == "--file" {
        serde_json::from_str::<scenario::Scenario>(&std::fs::read_to_string(&args[1]).unwrap()).unwrap()
    } else {
        let i: u64 = args[0].parse().unwrap_or(0);
        let seed: u64 = std::env::var("VERIF_SEED")
            .ok()
            .and_then(|s| s.parse().ok())
            .unwrap_or(20260926);
        let mut ph = rng::Hasher::default();
        ph.str("C17");
        let mut r = rng::Rng::new(rng::mix(&[seed, ph.0, i]));
        h.generate(&mut r, "C17", args.get(1).map(|s| s == "thorough").unwrap_or(false))
    };
    println!("{}", serde_json::to_string(&sc).unwrap());
    let o = h.run(&sc, None, true);
    for l in &o.trace {
        println!("{l}");
    }
    println!(
        "violation={:?} steps={} ops={} virtual_ms={} nontrivial={} faults={:?} probes={:?}",
        o.violation, o.steps, o.ops, o.virtual_ms, o.nontrivial, o.faults, o.probes
    );
    0
}

fn main() {
    let args: Vec<String> = std::env::args().collect();
    let code = match args.get(1).map(|s| s.as_str()) {
        Some("check") if args.len() >= 3 => check(&args[2], &args[3..]),
        Some("replay") if args.len() >= 3 => replay(&args[2], args.iter().any(|a| a == "--quiet")),
        Some("selfcheck") if args.len() >= 3 => selfcheck(&args[2], &args[3..]),
        Some("show") if args.len() >= 3 => show(&args[2..]),
        _ => {
            eprintln!("usage: netsim-redis check C17 [--tier quick|thorough] [--secs S] [--runs N] [--workers N] | replay <file> [--quiet] | selfcheck C17 [--runs N]");
            2
        }
    };
    std::process::exit(code);
}
