//! Executes one scenario deterministically: a fresh current-thread tokio
//! runtime with a paused clock, client tasks, redis driver tasks and one
//! scripted server task per connection. Run A uses `deadpool_redis::Pool`
//! (wrapper `Connection`, `Connection::take`); if the scenario contains a
//! `Take`, run B mirrors it on `managed::Pool<Manager>` (`Object::take`) and
//! the per-op observations of both runs are compared.

use std::{future::Future, ops::DerefMut, sync::Once, time::Duration};

use deadpool::managed::{Object, Pool, PoolError, QueueMode, TimeoutType};
use deadpool_redis::Manager;
use deadpool_runtime::Runtime;
use redis::aio::MultiplexedConnection;
use simcore::{
    common::{Harness, Outcome},
    rng::Rng,
    Decision,
};

use crate::scenario::{self, Op, Scenario};
use crate::world::{self, w, World, CL_TAKE};

pub struct RedisC17;

static INSTALL: Once = Once::new();

struct ModeResult {
    world: World,
    virtual_ms: u64,
}

async fn marker(conn: &mut MultiplexedConnection) -> Result<i64, String> {
    redis::cmd("GET")
        .arg("__id")
        .query_async::<i64>(conn)
        .await
        .map_err(|e| e.to_string())
}

fn pool_view<W>(pool: &Pool<Manager, W>) -> String
where
    W: From<Object<Manager>>,
{
    let mut idle: Vec<i64> = Vec::new();
    let snap = pool.verif_snapshot(&mut |c, _m| idle.push(redis::aio::ConnectionLike::get_db(c)));
    let st = pool.status();
    w(|w| w.check_pool(snap, st, &idle))
}

async fn client<W>(
    ci: usize,
    ops: Vec<Op>,
    pool: Pool<Manager, W>,
    take_fn: fn(W) -> MultiplexedConnection,
    take_name: &'static str,
) where
    W: From<Object<Manager>> + DerefMut<Target = MultiplexedConnection> + Send + 'static,
{
    let mut held: Vec<(W, i64)> = Vec::new();
    let mut taken: Vec<(MultiplexedConnection, i64)> = Vec::new();
    for (idx, op) in ops.iter().enumerate() {
        if w(|w| w.stop()) {
            break;
        }
        match *op {
            Op::Get => {
                w(|w| w.op_begin(ci, idx, "Get"));
                if held.len() >= 3 {
                    w(|w| w.op_end(ci, idx, "Get", "skip", ""));
                } else {
                    let bad0 = w(|w| w.get_begin());
                    match pool.get().await {
                        Ok(mut conn) => {
                            let id = redis::aio::ConnectionLike::get_db(&*conn);
                            let class = w(|w| w.on_handout(ci, id, bad0));
                            let view = pool_view(&pool);
                            let got = marker(&mut conn).await;
                            w(|w| w.on_marker(id, got, false));
                            held.push((conn, id));
                            w(|w| w.op_end(ci, idx, "Get", &class, &view));
                        }
                        Err(e) => {
                            let wait = matches!(e, PoolError::Timeout(TimeoutType::Wait));
                            let class = w(|w| w.on_get_err(ci, wait, format!("{e:?}"), bad0));
                            let view = pool_view(&pool);
                            w(|w| w.op_end(ci, idx, "Get", &class, &view));
                        }
                    }
                }
            }
            Op::Return { slot, kill_idle } => {
                w(|w| w.op_begin(ci, idx, if kill_idle { "Return+kill" } else { "Return" }));
                if held.is_empty() {
                    w(|w| w.op_end(ci, idx, "Return", "skip", ""));
                } else {
                    let (conn, id) = held.remove(slot % held.len());
                    drop(conn);
                    if let Some(k) = w(|w| w.on_return(id, kill_idle)) {
                        k.notify_one();
                    }
                    let view = pool_view(&pool);
                    w(|w| w.op_end(ci, idx, "Return", &format!("ok conn#{id}"), &view));
                }
            }
            Op::Take { slot } => {
                w(|w| w.op_begin(ci, idx, "Take"));
                if held.is_empty() {
                    w(|w| w.op_end(ci, idx, "Take", "skip", ""));
                } else {
                    let (conn, id) = held.remove(slot % held.len());
                    let mut mc = take_fn(conn);
                    w(|w| w.on_take(id, take_name));
                    let view = pool_view(&pool);
                    let got = marker(&mut mc).await;
                    w(|w| w.on_marker(id, got, true));
                    taken.push((mc, id));
                    w(|w| w.op_end(ci, idx, "Take", &format!("ok conn#{id}"), &view));
                }
            }
            Op::Watch { slot, key } => {
                w(|w| w.op_begin(ci, idx, "Watch"));
                if held.is_empty() {
                    w(|w| w.op_end(ci, idx, "Watch", "skip", ""));
                } else {
                    let n = held.len();
                    let (conn, id) = &mut held[slot % n];
                    let r = redis::cmd("WATCH")
                        .arg(format!("k{key}"))
                        .query_async::<()>(&mut **conn)
                        .await;
                    let id = *id;
                    user_result(ci, idx, "Watch", id, r.map_err(|e| e.to_string()));
                }
            }
            Op::Cmd { slot, set } => {
                w(|w| w.op_begin(ci, idx, if set { "Set" } else { "Cmd" }));
                if held.is_empty() {
                    w(|w| w.op_end(ci, idx, "Cmd", "skip", ""));
                } else {
                    let n = held.len();
                    let (conn, id) = &mut held[slot % n];
                    let r = if set {
                        redis::cmd("SET")
                            .arg("k0")
                            .arg(format!("v{ci}"))
                            .query_async::<()>(&mut **conn)
                            .await
                    } else {
                        redis::cmd("GET")
                            .arg("k0")
                            .query_async::<Option<String>>(&mut **conn)
                            .await
                            .map(|_| ())
                    };
                    let id = *id;
                    user_result(ci, idx, "Cmd", id, r.map_err(|e| e.to_string()));
                }
            }
            Op::Sleep { ms } => {
                w(|w| w.op_begin(ci, idx, "Sleep"));
                tokio::time::sleep(Duration::from_millis(ms)).await;
                w(|w| w.op_end(ci, idx, "Sleep", "ok", ""));
            }
            Op::Migrate => {
                w(|w| w.op_begin(ci, idx, "Migrate"));
                world::request_migration();
                w(|w| w.op_end(ci, idx, "Migrate", "ok", ""));
            }
        }
        tokio::task::yield_now().await;
    }
    // epilogue: taken connections are still usable, then everything goes back
    let n_ops = ops.len();
    for (k, (mc, id)) in taken.iter_mut().enumerate() {
        if w(|w| w.stop()) {
            break;
        }
        w(|w| w.op_begin(ci, n_ops + k, "UseTaken"));
        let got = marker(mc).await;
        w(|w| w.on_marker(*id, got, true));
        w(|w| w.op_end(ci, n_ops + k, "UseTaken", &format!("ok conn#{id}"), ""));
    }
    for (conn, id) in held.drain(..) {
        drop(conn);
        let _ = w(|w| w.on_return(id, false));
    }
    drop(taken);
    w(|w| w.op_begin(ci, n_ops + 100, "End"));
    let view = pool_view(&pool);
    w(|w| w.op_end(ci, n_ops + 100, "End", "ok", &view));
}

fn user_result(ci: usize, idx: usize, what: &str, id: i64, r: Result<(), String>) {
    w(|w| match r {
        Ok(()) => w.op_end(ci, idx, what, &format!("ok conn#{id}"), ""),
        Err(e) => {
            if w.violation.is_none() {
                w.harness_error(
                    "user_command",
                    format!("{what} of c{ci} on held conn#{id} failed: {e}"),
                );
            }
            w.op_end(ci, idx, what, "error", "");
        }
    })
}

fn run_mode<W>(
    sc: &Scenario,
    trace: bool,
    take_fn: fn(W) -> MultiplexedConnection,
    take_name: &'static str,
) -> ModeResult
where
    W: From<Object<Manager>> + DerefMut<Target = MultiplexedConnection> + Send + 'static,
{
    INSTALL.call_once(|| {
        // PoolConfig::default() would read /proc/cpuinfo for every pool
        deadpool_runtime::verif::set_physical_cpus(4);
        let _ = deadpool_redis::verif::install(world::connector);
    });
    let rt = tokio::runtime::Builder::new_current_thread()
        .enable_time()
        .start_paused(true)
        .build()
        .expect("runtime");
    {
        let _g = rt.enter();
        world::set_world(World::new(
            sc.recycle_script.clone(),
            sc.recycle_timeout_ms,
            sc.max_size,
            trace,
        ));
    }
    let migrates = sc.clients.iter().any(|c| c.iter().any(|o| matches!(o, Op::Migrate)));
    let main = async {
        let t0 = tokio::time::Instant::now();
        let manager = Manager::new("redis://sim.invalid/").expect("manager");
        let pool: Pool<Manager, W> = Pool::<Manager, W>::builder(manager)
            .max_size(sc.max_size)
            .runtime(Runtime::Tokio1)
            .wait_timeout(Some(Duration::from_millis(sc.wait_timeout_ms)))
            .recycle_timeout(sc.recycle_timeout_ms.map(Duration::from_millis))
            .queue_mode(if sc.lifo { QueueMode::Lifo } else { QueueMode::Fifo })
            .build()
            .expect("pool");
        let body = async {
            let mut handles = Vec::new();
            for (ci, ops) in sc.clients.iter().enumerate() {
                handles.push(tokio::spawn(client(
                    ci,
                    ops.clone(),
                    pool.clone(),
                    take_fn,
                    take_name,
                )));
            }
            for (ci, h) in handles.into_iter().enumerate() {
                if let Err(e) = h.await {
                    w(|w| {
                        if w.in_get.get(&ci).copied().unwrap_or(false) {
                            // whatever the server answers to a recycle, the connection is discarded
                            // and replaced: get() has no business panicking
                            if w.violation.is_none() {
                                let step = w.step;
                                w.violation = Some(simcore::Violation::at(
                                    world::PROP,
                                    world::CL_BAD,
                                    format!("pool.get() of client c{ci} panicked instead of discarding and replacing the connection: {e}"),
                                    step,
                                ));
                            }
                        } else {
                            w.harness_error("client_panicked", format!("{e}"));
                        }
                    });
                }
            }
            // let the servers see the EOF of dropped (taken) connections
            for _ in 0..4 {
                tokio::task::yield_now().await;
            }
            let _ = pool_view(&pool);
            let st = pool.status();
            w(|w| w.check_final(st));
        };
        // watchdog on the virtual clock: an idle runtime auto-advances to it instead of hanging
        if tokio::time::timeout(Duration::from_secs(3600), body).await.is_err() {
            w(|w| {
                w.harness_error(
                    "stuck",
                    "run did not finish within 3600 virtual seconds (a task waits forever)".into(),
                )
            });
        }
        drop(pool);
        for _ in 0..4 {
            tokio::task::yield_now().await;
        }
        t0.elapsed().as_millis() as u64
    };
    let virtual_ms = if !migrates {
        rt.block_on(main)
    } else {
        // phases alternate between two helper OS threads (simcore::phased); the thread-local
        // harness world travels with the run
        let ctl = world::w(|w| w.migrate.clone());
        let carried = std::sync::Mutex::new(world::take_world());
        let (ms, phases) = simcore::phased::run_alternating(
            Box::pin(main),
            &|f| rt.block_on(f),
            &ctl.0,
            &ctl.1,
            &|| world::set_world(carried.lock().unwrap().take().expect("world")),
            &|| *carried.lock().unwrap() = world::take_world(),
        );
        let mut wd = carried.into_inner().unwrap().expect("world");
        *wd.faults.entry("os_thread_migration".into()).or_insert(0) += phases - 1;
        world::set_world(wd);
        ms
    };
    drop(rt);
    let world = world::take_world().expect("world");
    ModeResult { world, virtual_ms }
}

pub fn run_scenario(sc: &Scenario, trace: bool) -> Outcome {
    let a = run_mode::<deadpool_redis::Connection>(
        sc,
        trace,
        deadpool_redis::Connection::take,
        "take_connection",
    );
    let mut out = Outcome::default();
    let mut wa = a.world;
    let mut hash = wa.hash;
    let mut il = wa.il;
    out.steps = wa.step;
    out.ops = wa.ops;
    out.virtual_ms = a.virtual_ms;
    out.faults = std::mem::take(&mut wa.faults);
    out.probes = std::mem::take(&mut wa.probes);
    out.nontrivial = wa.bad_fired || wa.reuse_after_watch || wa.overlapped;
    if wa.overlapped {
        *out.probes.entry("client_ops_overlapped".into()).or_insert(0) += 1;
    }
    out.violation = wa.violation.take();
    if trace {
        out.trace.push(format!("scenario: {}", scenario::shape(sc)));
        out.trace
            .push("--- run A: deadpool_redis::Pool, Connection::take ---".into());
        out.trace.append(&mut wa.trace);
    }
    if out.violation.is_none() && sc.has_take() {
        let b = run_mode::<Object<Manager>>(sc, trace, Object::<Manager>::take, "take_object");
        let mut wb = b.world;
        hash.u64(wb.hash.0);
        il.u64(wb.il.0);
        out.steps += wb.step;
        out.ops += wb.ops;
        out.virtual_ms += b.virtual_ms;
        for (k, v) in &wb.probes {
            if k == "take_object" {
                *out.probes.entry(k.clone()).or_insert(0) += v;
            }
        }
        *out.probes.entry("mirror_runs_compared".into()).or_insert(0) += 1;
        if trace {
            out.trace
                .push("--- run B (mirror): managed::Pool<Manager>, Object::take ---".into());
            out.trace.append(&mut wb.trace);
        }
        if let Some(v) = wb.violation.take() {
            // the mirror must behave like run A, which had no violation
            let mut v = v;
            if v.property != "HARNESS" {
                v.clause = CL_TAKE.into();
                v.detail = format!(
                    "mirror run with Object::take violates although run A with Connection::take does not: {}",
                    v.detail
                );
            }
            out.violation = Some(v);
        } else {
            let n = wa.obs.len().max(wb.obs.len());
            for i in 0..n {
                let (x, y) = (wa.obs.get(i), wb.obs.get(i));
                if x != y {
                    let step = wa.step;
                    out.violation = Some(simcore::Violation::at(
                        world::PROP,
                        CL_TAKE,
                        format!(
                            "observation {i} differs between Connection::take and Object::take: expected (Object::take) {:?}, observed (Connection::take) {:?}",
                            y, x
                        ),
                        step,
                    ));
                    break;
                }
            }
        }
    }
    out.log_hash = hash.0;
    out.ileave = il.0;
    out.decisions = Vec::new();
    out
}

impl Harness for RedisC17 {
    type Sc = Scenario;

    fn name(&self) -> &'static str {
        "netsim-redis"
    }

    fn generate(&self, rng: &mut Rng, _profile: &str, thorough: bool) -> Scenario {
        scenario::generate(rng, thorough)
    }

    fn run(&self, sc: &Scenario, _replay: Option<Vec<Decision>>, trace: bool) -> Outcome {
        run_scenario(sc, trace)
    }

    fn shrink_candidates(&self, sc: &Scenario) -> Vec<Scenario> {
        scenario::shrink_candidates(sc)
    }

    fn set_sched_seed(&self, _sc: &mut Scenario, _seed: u64) {}

    fn shape(&self, sc: &Scenario) -> String {
        scenario::shape(sc)
    }
}
