//! Scenario format for C17 (explicit, serialisable), generation, shrinking
//! candidates and canonical shape.

use serde::{Deserialize, Serialize};
use simcore::rng::Rng;

/// One step of a client task. `slot` addresses the list of connections the
/// client currently holds (`slot % held.len()`); an op that needs a held
/// connection while none is held is skipped (result class `skip`).
#[derive(Clone, Copy, Debug, PartialEq, Eq, Serialize, Deserialize)]
pub enum Op {
    /// `pool.get()`, keep the connection.
    Get,
    /// Drop a held connection (returns it to the pool). With `kill_idle` the
    /// server closes that connection right after it went back (idle in pool).
    Return { slot: usize, kill_idle: bool },
    /// `deadpool_redis::Connection::take` (run A) / `managed::Object::take` (mirror run B).
    Take { slot: usize },
    /// `WATCH k<key>` on a held connection (state left over for the next user).
    Watch { slot: usize, key: u8 },
    /// `GET k0` / `SET k0 v` on a held connection.
    Cmd { slot: usize, set: bool },
    /// Let virtual time pass.
    Sleep { ms: u64 },
    /// The whole runtime (every task of the run) continues on another, fresh OS thread from
    /// here on - what a work-stealing runtime does to tasks all the time.
    Migrate,
}

/// How the scripted server answers the n-th recycle (UNWATCH + PING n) on the pool.
#[derive(Clone, Copy, Debug, PartialEq, Eq, Serialize, Deserialize)]
pub enum Reply {
    /// `+OK`, bulk n
    Correct,
    /// `+OK`, bulk n after 20 virtual ms
    SlowCorrect,
    /// `+OK`, bulk <value of the previous PING on this pool>
    StaleEcho,
    /// `+OK`, bulk "x<n>"
    WrongEcho,
    /// `+OK`, bulk "0<n>": another value that happens to be the same number
    PaddedEcho,
    /// `+OK`, then after 20 virtual ms the value of the most recent PING seen on this pool (on
    /// any connection): the exact echo unless another recycle started meanwhile
    ConcurrentEcho,
    /// `+OK`, `+PONG`
    Pong,
    /// `+OK`, `:n` (the same value as a RESP integer; redis-rs converts it to the
    /// string n, so the value is echoed: reuse and discard are both accepted)
    IntEcho,
    /// `+OK`, `-ERR injected`
    ErrorReply,
    /// `-ERR injected` to UNWATCH (WATCH state kept), bulk n
    UnwatchError,
    /// connection closed when UNWATCH arrives
    CloseBeforeUnwatchReply,
    /// `+OK`, connection closed when PING arrives
    CloseBeforePingReply,
    /// `+OK`, PING never answered (needs a recycle timeout)
    NoReply,
    /// `+OK`, bulk n only 30 ms after the recycle timeout (needs a recycle timeout)
    LateReply,
}

impl Reply {
    pub fn needs_timeout(self) -> bool {
        matches!(self, Reply::NoReply | Reply::LateReply)
    }
    pub fn name(self) -> &'static str {
        match self {
            Reply::Correct => "Correct",
            Reply::SlowCorrect => "SlowCorrect",
            Reply::StaleEcho => "StaleEcho",
            Reply::WrongEcho => "WrongEcho",
            Reply::PaddedEcho => "PaddedEcho",
            Reply::ConcurrentEcho => "ConcurrentEcho",
            Reply::Pong => "Pong",
            Reply::IntEcho => "IntEcho",
            Reply::ErrorReply => "ErrorReply",
            Reply::UnwatchError => "UnwatchError",
            Reply::CloseBeforeUnwatchReply => "CloseBeforeUnwatchReply",
            Reply::CloseBeforePingReply => "CloseBeforePingReply",
            Reply::NoReply => "NoReply",
            Reply::LateReply => "LateReply",
        }
    }
}

#[derive(Clone, Debug, PartialEq, Eq, Serialize, Deserialize)]
pub struct Scenario {
    pub max_size: usize,
    pub lifo: bool,
    /// pool-wide recycle timeout (virtual ms)
    pub recycle_timeout_ms: Option<u64>,
    /// pool-wide wait timeout (virtual ms); always set so that a client
    /// asking for more than `max_size` connections gets `Timeout(Wait)` instead of hanging.
    pub wait_timeout_ms: u64,
    /// op list per client task
    pub clients: Vec<Vec<Op>>,
    /// reply for the n-th recycle on the pool; `Correct` beyond the end.
    /// `NoReply` / `LateReply` are executed as `Correct` when no recycle timeout is configured.
    pub recycle_script: Vec<Reply>,
}

impl Scenario {
    pub fn has_take(&self) -> bool {
        self.clients
            .iter()
            .any(|c| c.iter().any(|o| matches!(o, Op::Take { .. })))
    }
}

pub fn generate(rng: &mut Rng, thorough: bool) -> Scenario {
    let max_size = 1 + rng.weighted(&[40, 40, 20]);
    let n_clients = 1 + rng.weighted(&[40, 40, 20]);
    let recycle_timeout_ms = if rng.permille(550) { Some(50) } else { None };
    let lifo = rng.permille(300);
    // style: 0 = mixed, 1 = reuse-heavy (get/return ping-pong), 2 = fault-heavy
    let style = rng.weighted(&[50, 25, 25]);
    let max_ops = if thorough { 26 } else { 14 };
    // a share of the runs changes the OS thread under the runtime's feet
    let migrate = rng.permille(100);
    let mut clients = Vec::new();
    for _ in 0..n_clients {
        let n = rng.range(3, max_ops);
        let mut ops = Vec::with_capacity(n);
        let mut held = 0usize;
        for _ in 0..n {
            // a client asking for more than max_size only waits for its own timeout
            let full = held >= max_size;
            let w: [u32; 6] = match (style, held) {
                (_, 0) => [80, 2, 1, 2, 2, 13],
                _ if full => [3, 50, 9, 14, 14, 10],
                (1, _) => [20, 50, 3, 12, 10, 5],
                _ => [25, 30, 8, 14, 13, 10],
            };
            let op = match rng.weighted(&w) {
                0 => {
                    if held < 3 {
                        held += 1;
                    }
                    Op::Get
                }
                1 => {
                    held = held.saturating_sub(1);
                    Op::Return {
                        slot: rng.below(3),
                        kill_idle: rng.permille(if style == 2 { 200 } else { 80 }),
                    }
                }
                2 => {
                    held = held.saturating_sub(1);
                    Op::Take { slot: rng.below(3) }
                }
                3 => Op::Watch {
                    slot: rng.below(3),
                    key: rng.below(3) as u8,
                },
                4 => Op::Cmd {
                    slot: rng.below(3),
                    set: rng.coin(),
                },
                _ => Op::Sleep {
                    ms: *rng.pick(&[1u64, 10, 20, 50, 60]),
                },
            };
            ops.push(op);
            if migrate && rng.permille(350) {
                ops.push(Op::Migrate);
            }
        }
        clients.push(ops);
    }
    let n_script = rng.range(0, if thorough { 14 } else { 8 });
    let p_correct: u32 = match style {
        2 => 25,
        1 => 60,
        _ => 45,
    };
    let mut recycle_script = Vec::new();
    for _ in 0..n_script {
        let r = if rng.below(100) < p_correct as usize {
            Reply::Correct
        } else {
            let kinds: &[Reply] = if recycle_timeout_ms.is_some() {
                &[
                    Reply::SlowCorrect,
                    Reply::ConcurrentEcho,
                    Reply::ConcurrentEcho,
                    Reply::StaleEcho,
                    Reply::WrongEcho,
                    Reply::PaddedEcho,
                    Reply::Pong,
                    Reply::IntEcho,
                    Reply::ErrorReply,
                    Reply::UnwatchError,
                    Reply::CloseBeforeUnwatchReply,
                    Reply::CloseBeforePingReply,
                    Reply::NoReply,
                    Reply::NoReply,
                    Reply::LateReply,
                ]
            } else {
                &[
                    Reply::SlowCorrect,
                    Reply::ConcurrentEcho,
                    Reply::ConcurrentEcho,
                    Reply::StaleEcho,
                    Reply::WrongEcho,
                    Reply::PaddedEcho,
                    Reply::Pong,
                    Reply::IntEcho,
                    Reply::ErrorReply,
                    Reply::UnwatchError,
                    Reply::CloseBeforeUnwatchReply,
                    Reply::CloseBeforePingReply,
                ]
            };
            *rng.pick(kinds)
        };
        recycle_script.push(r);
    }
    Scenario {
        max_size,
        lifo,
        recycle_timeout_ms,
        wait_timeout_ms: 200,
        clients,
        recycle_script,
    }
}

pub fn shrink_candidates(sc: &Scenario) -> Vec<Scenario> {
    let mut out = Vec::new();
    // drop clients
    if sc.clients.len() > 1 {
        for i in 0..sc.clients.len() {
            let mut c = sc.clone();
            let _ = c.clients.remove(i);
            out.push(c);
        }
    }
    // all replies correct / script cut
    if !sc.recycle_script.is_empty() {
        let mut c = sc.clone();
        c.recycle_script.clear();
        out.push(c);
    }
    // halves of op lists
    for i in 0..sc.clients.len() {
        let n = sc.clients[i].len();
        if n > 2 {
            let mut c = sc.clone();
            c.clients[i].truncate(n / 2);
            out.push(c);
            let mut c = sc.clone();
            let _ = c.clients[i].drain(..n / 2);
            out.push(c);
        }
    }
    // single ops
    for i in 0..sc.clients.len() {
        for k in (0..sc.clients[i].len()).rev() {
            let mut c = sc.clone();
            let _ = c.clients[i].remove(k);
            if c.clients[i].is_empty() && c.clients.len() > 1 {
                let _ = c.clients.remove(i);
            }
            out.push(c);
        }
    }
    // script entries: drop tail, remove one, make correct
    if let Some(Reply::Correct) = sc.recycle_script.last() {
        let mut c = sc.clone();
        while c.recycle_script.last() == Some(&Reply::Correct) {
            let _ = c.recycle_script.pop();
        }
        out.push(c);
    }
    for i in (0..sc.recycle_script.len()).rev() {
        let mut c = sc.clone();
        let _ = c.recycle_script.remove(i);
        out.push(c);
    }
    for i in 0..sc.recycle_script.len() {
        if sc.recycle_script[i] != Reply::Correct {
            let mut c = sc.clone();
            c.recycle_script[i] = Reply::Correct;
            out.push(c);
        }
    }
    // simpler ops
    for i in 0..sc.clients.len() {
        for k in 0..sc.clients[i].len() {
            match sc.clients[i][k] {
                Op::Return { slot, kill_idle } => {
                    if kill_idle {
                        let mut c = sc.clone();
                        c.clients[i][k] = Op::Return { slot, kill_idle: false };
                        out.push(c);
                    }
                    if slot != 0 {
                        let mut c = sc.clone();
                        c.clients[i][k] = Op::Return { slot: 0, kill_idle };
                        out.push(c);
                    }
                }
                Op::Take { slot } if slot != 0 => {
                    let mut c = sc.clone();
                    c.clients[i][k] = Op::Take { slot: 0 };
                    out.push(c);
                }
                Op::Watch { slot, key } if slot != 0 || key != 0 => {
                    let mut c = sc.clone();
                    c.clients[i][k] = Op::Watch { slot: 0, key: 0 };
                    out.push(c);
                }
                Op::Cmd { slot, set } if slot != 0 || set => {
                    let mut c = sc.clone();
                    c.clients[i][k] = Op::Cmd { slot: 0, set: false };
                    out.push(c);
                }
                Op::Sleep { ms } if ms != 1 => {
                    let mut c = sc.clone();
                    c.clients[i][k] = Op::Sleep { ms: 1 };
                    out.push(c);
                }
                _ => {}
            }
        }
    }
    if sc.recycle_timeout_ms.is_some() {
        let mut c = sc.clone();
        c.recycle_timeout_ms = None;
        out.push(c);
    }
    if sc.lifo {
        let mut c = sc.clone();
        c.lifo = false;
        out.push(c);
    }
    if sc.max_size > 1 {
        let mut c = sc.clone();
        c.max_size -= 1;
        out.push(c);
    }
    out
}

fn op_name(op: &Op) -> String {
    match op {
        Op::Get => "Get".into(),
        Op::Return { kill_idle: true, .. } => "Return+kill".into(),
        Op::Return { .. } => "Return".into(),
        Op::Take { .. } => "Take".into(),
        Op::Watch { .. } => "Watch".into(),
        Op::Cmd { set: true, .. } => "Set".into(),
        Op::Cmd { .. } => "Cmd".into(),
        Op::Sleep { ms } => format!("Sleep({ms})"),
        Op::Migrate => "Migrate".into(),
    }
}

pub fn shape(sc: &Scenario) -> String {
    let mut s = format!(
        "max_size={} lifo={} recycle_timeout={} |",
        sc.max_size,
        sc.lifo,
        match sc.recycle_timeout_ms {
            Some(ms) => format!("{ms}ms"),
            None => "none".into(),
        }
    );
    for (i, c) in sc.clients.iter().enumerate() {
        s.push_str(&format!(
            " C{}:[{}]",
            i,
            c.iter().map(op_name).collect::<Vec<_>>().join(",")
        ));
    }
    s.push_str(&format!(
        " | recycle_script=[{}]",
        sc.recycle_script
            .iter()
            .map(|r| r.name())
            .collect::<Vec<_>>()
            .join(",")
    ));
    s
}
