//! Per-run world: scripted RESP server, connection model, event log and the
//! C17 oracles. One `World` lives in a thread-local for the duration of a run;
//! the process-global connector installed into `deadpool_redis::verif` and
//! every server task look it up there.

use std::{
    cell::RefCell,
    collections::{BTreeMap, BTreeSet},
    sync::Arc,
    time::Duration,
};

use deadpool::managed::{Status, VerifSnapshot};
use redis::{aio::MultiplexedConnection, AsyncConnectionConfig, ConnectionInfo};
use simcore::{rng::Hasher, Violation};
use tokio::{
    io::{AsyncReadExt, AsyncWriteExt, DuplexStream},
    sync::Notify,
};

use crate::scenario::Reply;

pub const PROP: &str = "C17";
pub const CL_REUSE: &str = "reuse_preceded_by_unwatch_and_ping";
pub const CL_FRESH: &str = "ping_value_fresh";
pub const CL_EXACT: &str = "echo_was_exact";
pub const CL_BAD: &str = "bad_reply_discards";
pub const CL_TAKE: &str = "take_equivalence";

thread_local! {
    static WORLD: RefCell<Option<World>> = const { RefCell::new(None) };
}

pub fn set_world(w: World) {
    WORLD.with(|c| *c.borrow_mut() = Some(w));
}

pub fn take_world() -> Option<World> {
    WORLD.with(|c| c.borrow_mut().take())
}

// ---- OS thread migration (simcore::phased): the request flag and the driver's waker belong to the
// run, not to a thread
pub fn request_migration() {
    w(|w| {
        w.migrate.0.store(true, std::sync::atomic::Ordering::SeqCst);
        if let Some(wk) = w.migrate.1.lock().unwrap().as_ref() {
            wk.wake_by_ref();
        }
    });
}

pub type MigrateCtl = std::sync::Arc<(std::sync::atomic::AtomicBool, std::sync::Mutex<Option<std::task::Waker>>)>;

/// Access to the world of the run executing on this OS thread.
pub fn w<R>(f: impl FnOnce(&mut World) -> R) -> R {
    WORLD.with(|c| f(c.borrow_mut().as_mut().expect("no world installed on this thread")))
}

#[derive(Clone, Copy, Debug, PartialEq, Eq)]
pub enum CState {
    /// created by the pool, not yet in a caller's hands
    Fresh,
    Held,
    Pooled,
    Taken,
    /// the model knows the pool must have dropped it (bad recycle reply) or saw that it did
    Gone,
}

#[derive(Clone, Debug)]
pub struct Recycle {
    pub n: String,
    pub fresh: bool,
    pub kind: Reply,
    /// raw bytes the server sent in answer to the PING (None: nothing sent)
    pub reply: Option<String>,
    /// the reply carries exactly the value n
    pub value_exact: bool,
}

pub struct SConn {
    pub id: i64,
    pub state: CState,
    /// the server side closed it while idle in the pool
    pub killed: bool,
    /// recycle answered in a way after which either outcome is acceptable
    pub maybe_gone: bool,
    /// recycle was answered badly: (kind, recycle number)
    pub doomed: Option<(&'static str, usize)>,
    /// server task alive and client end not closed
    pub open: bool,
    pub muted: bool,
    pub watch: BTreeSet<String>,
    /// commands received since the last hand-out
    pub log: Vec<Vec<String>>,
    pub handouts: u32,
    pub rec: Option<Recycle>,
    pub cur: Option<Reply>,
    pub watch_at_recycle: bool,
    pub kill: Arc<Notify>,
}

pub enum Act {
    Reply(Vec<u8>),
    /// sleep (virtual ms), then send
    DelayReply(u64, Vec<u8>),
    /// after the delay, reply with the most recent PING value seen on the pool
    DelayLatest(u64),
    Close(&'static str),
    Silent,
}

pub struct World {
    /// clients that are inside `pool.get()` right now
    pub in_get: BTreeMap<usize, bool>,
    pub migrate: MigrateCtl,
    pub trace_on: bool,
    pub trace: Vec<String>,
    pub hash: Hasher,
    pub il: Hasher,
    pub step: u64,
    pub seq: u64,
    pub ops: u64,
    pub violation: Option<Violation>,
    pub conns: Vec<SConn>,
    pub script: Vec<Reply>,
    pub recycle_timeout_ms: Option<u64>,
    pub max_size: usize,
    pub recycle_no: usize,
    pub pings: Vec<String>,
    pub kv: BTreeMap<String, String>,
    pub faults: BTreeMap<String, u64>,
    pub probes: BTreeMap<String, u64>,
    /// per-op observations, compared between run A (Connection::take) and run B (Object::take)
    pub obs: Vec<String>,
    pub held: usize,
    pub inflight: usize,
    pub active_ops: usize,
    pub overlapped: bool,
    pub takes: u64,
    pub bad_recycles: u64,
    pub bad_fired: bool,
    pub reuse_after_watch: bool,
    pub start: tokio::time::Instant,
}

fn bulk(s: &str) -> Vec<u8> {
    format!("${}\r\n{}\r\n", s.len(), s).into_bytes()
}

fn printable(b: &[u8]) -> String {
    String::from_utf8_lossy(b).replace("\r\n", "\\r\\n")
}

impl World {
    pub fn new(
        script: Vec<Reply>,
        recycle_timeout_ms: Option<u64>,
        max_size: usize,
        trace_on: bool,
    ) -> World {
        World {
            in_get: BTreeMap::new(),
            migrate: std::sync::Arc::new((std::sync::atomic::AtomicBool::new(false), std::sync::Mutex::new(None))),
            trace_on,
            trace: Vec::new(),
            hash: Hasher::default(),
            il: Hasher::default(),
            step: 0,
            seq: 0,
            ops: 0,
            violation: None,
            conns: Vec::new(),
            script,
            recycle_timeout_ms,
            max_size,
            recycle_no: 0,
            pings: Vec::new(),
            kv: BTreeMap::new(),
            faults: BTreeMap::new(),
            probes: BTreeMap::new(),
            obs: Vec::new(),
            held: 0,
            inflight: 0,
            active_ops: 0,
            overlapped: false,
            takes: 0,
            bad_recycles: 0,
            bad_fired: false,
            reuse_after_watch: false,
            start: tokio::time::Instant::now(),
        }
    }

    pub fn now_ms(&self) -> u64 {
        self.start.elapsed().as_millis() as u64
    }

    fn ev(&mut self, l: String) {
        // one formatting for hash and trace keeps `log_hash` independent of `trace_on`
        self.step += 1;
        self.hash.u64(self.step);
        self.hash.u64(self.now_ms());
        self.hash.str(&l);
        if self.trace_on {
            self.trace
                .push(format!("[{:>4}] t={:>4}ms {}", self.step, self.now_ms(), l));
        }
    }

    pub fn probe(&mut self, k: &str) {
        *self.probes.entry(k.to_string()).or_insert(0) += 1;
    }

    fn fault(&mut self, k: &str) {
        *self.faults.entry(k.to_string()).or_insert(0) += 1;
    }

    pub fn violate(&mut self, clause: &str, detail: String) {
        self.ev(format!("!! VIOLATION {clause}: {detail}"));
        if self.violation.is_none() {
            self.violation = Some(Violation::at(PROP, clause, detail, self.step));
        }
    }

    pub fn harness_error(&mut self, what: &str, detail: String) {
        self.ev(format!("!! HARNESS {what}: {detail}"));
        if self.violation.is_none() {
            self.violation = Some(Violation::at("HARNESS", what, detail, self.step));
        }
    }

    pub fn stop(&self) -> bool {
        self.violation.is_some()
    }

    fn conn(&mut self, id: i64) -> Option<&mut SConn> {
        if id >= 1 {
            self.conns.get_mut((id - 1) as usize)
        } else {
            None
        }
    }

    // ---------------------------------------------------------------- server side

    fn new_conn(&mut self) -> (i64, Arc<Notify>) {
        let id = self.conns.len() as i64 + 1;
        let kill = Arc::new(Notify::new());
        self.conns.push(SConn {
            id,
            state: CState::Fresh,
            killed: false,
            maybe_gone: false,
            doomed: None,
            open: true,
            muted: false,
            watch: BTreeSet::new(),
            log: Vec::new(),
            handouts: 0,
            rec: None,
            cur: None,
            watch_at_recycle: false,
            kill: kill.clone(),
        });
        self.ev(format!("srv conn#{id} accepted"));
        self.probe("connections_created");
        (id, kill)
    }

    fn next_script(&mut self) -> Reply {
        let r = self
            .script
            .get(self.recycle_no)
            .copied()
            .unwrap_or(Reply::Correct);
        self.recycle_no += 1;
        if r.needs_timeout() && self.recycle_timeout_ms.is_none() {
            Reply::Correct
        } else {
            r
        }
    }

    fn doom(&mut self, id: i64, kind: &'static str) {
        let no = self.recycle_no;
        self.bad_recycles += 1;
        self.bad_fired = true;
        self.fault(kind);
        self.il.str(kind);
        let c = self.conn(id).unwrap();
        c.doomed = Some((kind, no));
        if c.state == CState::Pooled {
            c.state = CState::Gone;
        }
    }

    /// A complete command arrived on connection `id`.
    fn on_command(&mut self, id: i64, args: &[String]) -> Act {
        self.seq += 1;
        let seq = self.seq;
        self.ev(format!("srv #{seq} conn#{id} <- {}", args.join(" ")));
        let name = args.first().map(|s| s.to_ascii_uppercase()).unwrap_or_default();
        {
            let c = self.conn(id).unwrap();
            c.log.push(args.to_vec());
            if c.muted {
                return Act::Silent;
            }
        }
        match name.as_str() {
            "CLIENT" | "SELECT" | "HELLO" | "AUTH" => Act::Reply(b"+OK\r\n".to_vec()),
            "WATCH" => {
                let c = self.conn(id).unwrap();
                for k in &args[1..] {
                    let _ = c.watch.insert(k.clone());
                }
                Act::Reply(b"+OK\r\n".to_vec())
            }
            "GET" => {
                if args.get(1).map(|s| s.as_str()) == Some("__id") {
                    Act::Reply(bulk(&id.to_string()))
                } else {
                    match args.get(1).and_then(|k| self.kv.get(k)) {
                        Some(v) => Act::Reply(bulk(v)),
                        None => Act::Reply(b"$-1\r\n".to_vec()),
                    }
                }
            }
            "SET" => {
                if let (Some(k), Some(v)) = (args.get(1), args.get(2)) {
                    let _ = self.kv.insert(k.clone(), v.clone());
                }
                Act::Reply(b"+OK\r\n".to_vec())
            }
            "UNWATCH" => {
                let kind = self.next_script();
                let had_watch = {
                    let c = self.conn(id).unwrap();
                    c.cur = Some(kind);
                    c.watch_at_recycle = !c.watch.is_empty();
                    c.watch_at_recycle
                };
                if had_watch {
                    self.fault("leftover_watch");
                }
                match kind {
                    Reply::CloseBeforeUnwatchReply => {
                        self.doom(id, "disconnect_before_unwatch_reply");
                        Act::Close("disconnect_before_unwatch_reply")
                    }
                    Reply::UnwatchError => {
                        self.fault("unwatch_error_reply");
                        self.il.str("unwatch_error_reply");
                        let c = self.conn(id).unwrap();
                        c.maybe_gone = true;
                        Act::Reply(b"-ERR injected\r\n".to_vec())
                    }
                    _ => {
                        self.conn(id).unwrap().watch.clear();
                        Act::Reply(b"+OK\r\n".to_vec())
                    }
                }
            }
            "PING" => {
                let n = args.get(1).cloned().unwrap_or_default();
                let kind = match self.conn(id).unwrap().cur.take() {
                    Some(k) => k,
                    None => {
                        // a recycle that did not start with UNWATCH
                        let k = self.next_script();
                        let c = self.conn(id).unwrap();
                        c.watch_at_recycle = !c.watch.is_empty();
                        match k {
                            Reply::CloseBeforeUnwatchReply => Reply::CloseBeforePingReply,
                            Reply::UnwatchError => Reply::Correct,
                            k => k,
                        }
                    }
                };
                let prev = self.pings.last().cloned();
                let fresh = !self.pings.contains(&n);
                self.pings.push(n.clone());
                let exact = bulk(&n);
                let (act, fault): (Act, Option<&'static str>) = match kind {
                    Reply::Correct | Reply::UnwatchError | Reply::CloseBeforeUnwatchReply => {
                        (Act::Reply(exact.clone()), None)
                    }
                    Reply::SlowCorrect => (Act::DelayReply(20, exact.clone()), Some("slow_reply")),
                    Reply::StaleEcho => match prev {
                        Some(p) => (Act::Reply(bulk(&p)), Some("stale_echo")),
                        None => (Act::Reply(bulk("-1")), Some("wrong_echo")),
                    },
                    Reply::WrongEcho => (Act::Reply(bulk(&format!("x{n}"))), Some("wrong_echo")),
                    Reply::PaddedEcho => (Act::Reply(bulk(&format!("0{n}"))), Some("numerically_equal_echo")),
                    Reply::ConcurrentEcho => (Act::DelayLatest(20), Some("slow_reply")),
                    Reply::Pong => (Act::Reply(b"+PONG\r\n".to_vec()), Some("pong_reply")),
                    Reply::IntEcho => {
                        if n.parse::<i64>().is_ok() {
                            (Act::Reply(format!(":{n}\r\n").into_bytes()), Some("int_typed_echo"))
                        } else {
                            (Act::Reply(exact.clone()), None)
                        }
                    }
                    Reply::ErrorReply => {
                        (Act::Reply(b"-ERR injected\r\n".to_vec()), Some("error_reply"))
                    }
                    Reply::CloseBeforePingReply => (
                        Act::Close("disconnect_before_reply"),
                        Some("disconnect_before_reply"),
                    ),
                    Reply::NoReply => (Act::Silent, Some("no_reply_with_timeout")),
                    Reply::LateReply => (
                        Act::DelayReply(self.recycle_timeout_ms.unwrap_or(0) + 30, exact.clone()),
                        Some("late_reply_after_timeout"),
                    ),
                };
                // bad = anything but the exact echo arriving within the deadline
                let int_echo = format!(":{n}\r\n").into_bytes();
                let bad = match &act {
                    Act::Reply(b) => *b != exact && *b != int_echo,
                    Act::DelayReply(ms, _) => match self.recycle_timeout_ms {
                        Some(t) => *ms >= t,
                        None => false,
                    },
                    Act::Close(_) | Act::Silent => true,
                    // judged when the reply is written (resolve_latest)
                    Act::DelayLatest(_) => false,
                };
                let reply = match &act {
                    Act::Reply(b) => Some(printable(b)),
                    // filled in when it is actually written
                    _ => None,
                };
                let value_exact = match &act {
                    Act::Reply(b) => *b == exact || *b == int_echo,
                    Act::DelayReply(..) | Act::DelayLatest(..) => true,
                    _ => false,
                };
                {
                    let c = self.conn(id).unwrap();
                    if matches!(&act, Act::Reply(b) if *b == int_echo) {
                        // same value, other RESP type: either outcome is acceptable
                        c.maybe_gone = true;
                    }
                    c.rec = Some(Recycle {
                        n: n.clone(),
                        fresh,
                        kind,
                        reply,
                        value_exact,
                    });
                    if matches!(act, Act::Silent) {
                        c.muted = true;
                    }
                }
                self.il.str("recycle");
                match (bad, fault) {
                    (true, Some(f)) => self.doom(id, f),
                    (true, None) => self.doom(id, "bad_reply"),
                    (false, Some(f)) => {
                        // e.g. slow reply, or a "stale" echo that happens to equal n
                        self.fault(f);
                        self.il.str(f);
                    }
                    (false, None) => {}
                }
                if matches!(act, Act::Silent) {
                    self.ev(format!("srv conn#{id} -> (no reply to PING {n})"));
                }
                act
            }
            _ => Act::Reply(b"-ERR unknown command\r\n".to_vec()),
        }
    }

    /// The delayed reply of a `ConcurrentEcho` recycle is due: it carries the most recent PING
    /// value seen on the pool. If another recycle started meanwhile that is a wrong echo.
    fn resolve_latest(&mut self, id: i64) -> Vec<u8> {
        let latest = self.pings.last().cloned().unwrap_or_default();
        let mine = self.conn(id).and_then(|c| c.rec.as_ref().map(|r| r.n.clone())).unwrap_or_default();
        if latest != mine {
            if let Some(r) = self.conn(id).and_then(|c| c.rec.as_mut()) {
                r.value_exact = false;
            }
            self.doom(id, "echo_of_concurrent_ping");
        }
        bulk(&latest)
    }

    fn on_reply_sent(&mut self, id: i64, bytes: &[u8], delayed: bool) {
        let p = printable(bytes);
        self.ev(format!(
            "srv conn#{id} -> {p}{}",
            if delayed { " (delayed)" } else { "" }
        ));
        if delayed {
            if let Some(r) = self.conn(id).and_then(|c| c.rec.as_mut()) {
                if r.reply.is_none() {
                    r.reply = Some(p);
                }
            }
        }
    }

    fn on_closed(&mut self, id: i64, why: &str) {
        self.ev(format!("srv conn#{id} closed ({why})"));
        if let Some(c) = self.conn(id) {
            c.open = false;
        }
    }

    // ---------------------------------------------------------------- client side / model

    pub fn op_begin(&mut self, ci: usize, idx: usize, what: &str) {
        self.ops += 1;
        let _ = self.in_get.insert(ci, what == "Get");
        if self.active_ops > 0 {
            self.overlapped = true;
        }
        self.active_ops += 1;
        self.ev(format!("c{ci} op{idx} {what} ..."));
    }

    pub fn op_end(&mut self, ci: usize, idx: usize, what: &str, class: &str, pool_view: &str) {
        self.active_ops -= 1;
        let _ = self.in_get.insert(ci, false);
        self.il.str(what);
        self.il.str(class);
        self.ev(format!("c{ci} op{idx} {what} -> {class} {pool_view}"));
        self.obs
            .push(format!("c{ci} op{idx} {what} -> {class} {pool_view}"));
    }

    pub fn get_begin(&mut self) -> u64 {
        self.inflight += 1;
        self.bad_recycles
    }

    /// `get()` returned a connection whose server-side number is `id`.
    pub fn on_handout(&mut self, ci: usize, id: i64, bad_before: u64) -> String {
        self.inflight -= 1;
        self.held += 1;
        let bad_during = self.bad_recycles - bad_before;
        let pings_so_far = self.pings.clone();
        let Some(c) = self.conn(id) else {
            self.harness_error("unknown_connection", format!("get() returned connection with db {id}"));
            return "ok_unknown".into();
        };
        let state = c.state;
        c.handouts += 1;
        let class = match state {
            CState::Fresh => {
                c.state = CState::Held;
                // a connection that is handed out for the first time has not been recycled; if it
                // was pinged all the same (a recycle that reconnected in place), the value must
                // still be one that was never used on this pool
                let dup: Option<String> = c
                    .log
                    .iter()
                    .filter(|cmd| cmd.first().map(|s| s.as_str()) == Some("PING"))
                    .filter_map(|cmd| cmd.get(1).cloned())
                    .find(|v| pings_so_far.iter().filter(|p| *p == v).count() > 1);
                c.log.clear();
                if let Some(v) = dup {
                    let all = pings_so_far.clone();
                    self.violate(
                        CL_FRESH,
                        format!("conn#{id} handed out to c{ci} after PING {v:?}, a value already used by an earlier PING on this pool (all PING values so far: {all:?})"),
                    );
                }
                if bad_during > 0 {
                    self.probe("discarded_and_replaced");
                    if bad_during > 1 {
                        self.probe("several_discarded_in_one_get");
                    }
                }
                "ok_new".to_string()
            }
            CState::Held => {
                self.harness_error(
                    "double_handout",
                    format!("conn#{id} handed to c{ci} while still held (pool exclusivity is not C17)"),
                );
                "ok_double".into()
            }
            CState::Taken => {
                self.violate(
                    CL_TAKE,
                    format!("conn#{id} was taken from the pool (Connection::take) and is handed out again by get()"),
                );
                "ok_taken_again".into()
            }
            CState::Pooled | CState::Gone => {
                let log = std::mem::take(&mut c.log);
                let rec = c.rec.take();
                let watch_left = !c.watch.is_empty();
                let watch_before = c.watch_at_recycle;
                let doomed = c.doomed;
                let killed = c.killed;
                let maybe_gone = c.maybe_gone;
                c.maybe_gone = false;
                c.state = CState::Held;
                self.probe("reused_connection");
                // 1. UNWATCH then PING n are the last two commands since the previous hand-out
                let n_log = log.len();
                let last_is_ping = n_log >= 1 && log[n_log - 1].first().map(|s| s.as_str()) == Some("PING");
                let prev_is_unwatch =
                    n_log >= 2 && log[n_log - 2].len() == 1 && log[n_log - 2][0] == "UNWATCH";
                let tail: Vec<String> = log.iter().rev().take(3).rev().map(|c| c.join(" ")).collect();
                if !(last_is_ping && prev_is_unwatch) {
                    self.violate(
                        CL_REUSE,
                        format!(
                            "conn#{id} reused by c{ci}: expected the server log since the previous hand-out to end with [UNWATCH, PING n], observed tail {:?}",
                            tail
                        ),
                    );
                } else if watch_left {
                    self.violate(
                        CL_REUSE,
                        format!("conn#{id} reused by c{ci} while the server still holds WATCH state of the previous user"),
                    );
                } else if let Some(rec) = &rec {
                    if log[n_log - 1].get(1) != Some(&rec.n) {
                        self.harness_error("recycle_record", format!("conn#{id}: log/record mismatch"));
                    } else if !rec.fresh {
                        self.violate(
                            CL_FRESH,
                            format!(
                                "conn#{id} reused by c{ci} after PING {:?}, a value already used by an earlier PING on this pool (all PING values so far: {:?})",
                                rec.n, self.pings
                            ),
                        );
                    } else {
                        let exact = printable(&bulk(&rec.n));
                        match &rec.reply {
                            Some(_) if rec.value_exact && doomed.is_none() => {}
                            Some(r) if !rec.value_exact => self.violate(
                                CL_EXACT,
                                format!(
                                    "conn#{id} reused by c{ci} although the server answered PING {} with {:?} (scripted reply {}; expected discard; exact echo would be {:?})",
                                    rec.n, r, rec.kind.name(), exact
                                ),
                            ),
                            _ => self.violate(
                                CL_BAD,
                                format!(
                                    "conn#{id} reused by c{ci} although its recycle (PING {}) was answered with {} (expected: discarded and replaced)",
                                    rec.n,
                                    doomed.map(|d| d.0).unwrap_or("nothing")
                                ),
                            ),
                        }
                    }
                } else {
                    self.harness_error("recycle_record", format!("conn#{id}: PING logged without record"));
                }
                if self.violation.is_none() {
                    if killed {
                        self.violate(
                            CL_BAD,
                            format!("conn#{id} reused by c{ci} although the server had disconnected it while idle"),
                        );
                    } else if let Some((kind, no)) = doomed {
                        self.violate(
                            CL_BAD,
                            format!("conn#{id} reused by c{ci} although recycle #{no} on it was answered with {kind}"),
                        );
                    }
                }
                if watch_before && self.violation.is_none() {
                    self.probe("watch_left_by_previous_user_cleared");
                    self.reuse_after_watch = true;
                }
                if maybe_gone && self.violation.is_none() {
                    self.probe("tolerated_reply_reused");
                }
                "ok_reused".to_string()
            }
        };
        format!("{class} conn#{id}")
    }

    pub fn on_get_err(&mut self, ci: usize, wait_timeout: bool, err: String, bad_before: u64) -> String {
        self.inflight -= 1;
        if wait_timeout {
            self.probe("get_wait_timeout");
            // every other in-flight get may hold a permit; if even then there is room the slot was lost
            if self.held + self.inflight < self.max_size {
                let clause = if self.takes > 0 { CL_TAKE } else { CL_BAD };
                self.violate(
                    clause,
                    format!(
                        "get() of c{ci} timed out waiting for a slot although only {} of {} slots are in callers' hands ({} other get() in flight, {} connections taken, {} recycles answered badly): a freed slot is not reusable",
                        self.held, self.max_size, self.inflight, self.takes, self.bad_recycles
                    ),
                );
            }
            "wait_timeout".into()
        } else {
            let bad_during = self.bad_recycles - bad_before;
            self.violate(
                CL_BAD,
                format!(
                    "get() of c{ci} failed with {err} ({bad_during} recycle(s) answered badly during it); expected the bad connection to be discarded and get() to succeed with another connection"
                ),
            );
            "error".into()
        }
    }

    pub fn on_marker(&mut self, id: i64, got: Result<i64, String>, taken: bool) {
        match got {
            Ok(k) if k == id => {}
            Ok(k) => self.harness_error(
                "identity",
                format!("client connection with db {id} is server connection {k}"),
            ),
            Err(e) => {
                if taken {
                    self.violate(
                        CL_TAKE,
                        format!("taken conn#{id} is not usable by the caller: {e}"),
                    );
                } else if self.violation.is_none() {
                    self.violate(
                        CL_BAD,
                        format!("conn#{id} was handed out by get() but cannot answer a command: {e}"),
                    );
                }
            }
        }
    }

    pub fn on_return(&mut self, id: i64, kill_idle: bool) -> Option<Arc<Notify>> {
        self.held -= 1;
        let c = self.conn(id)?;
        if c.state == CState::Held {
            c.state = CState::Pooled;
        }
        if kill_idle {
            c.killed = true;
            let k = c.kill.clone();
            self.fault("disconnect_idle");
            self.il.str("disconnect_idle");
            self.ev(format!("srv conn#{id} will be closed by the server while idle"));
            Some(k)
        } else {
            None
        }
    }

    pub fn on_take(&mut self, id: i64, which: &str) {
        self.held -= 1;
        self.takes += 1;
        self.probe(which);
        if let Some(c) = self.conn(id) {
            c.state = CState::Taken;
        }
    }

    /// Pool bookkeeping versus model. The idle queue is checked always, the
    /// size arithmetic exactly only at an instant where no `get()` is in flight
    /// (otherwise within the bounds the in-flight gets allow).
    pub fn check_pool(&mut self, snap: Option<VerifSnapshot>, st: Status, idle: &[i64]) -> String {
        let Some(snap) = snap else {
            self.harness_error("snapshot", "slots locked although no pool call is executing".into());
            return String::new();
        };
        let quiescent = self.inflight == 0;
        let view = format!(
            "status(size={} avail={} wait={} max={}) snap(size={} idle={:?} permits={}){}",
            st.size,
            st.available,
            st.waiting,
            st.max_size,
            snap.size,
            idle,
            snap.permits,
            if quiescent { "" } else { " [get in flight elsewhere]" }
        );
        if self.violation.is_some() {
            return view;
        }
        for id in idle {
            let (state, doomed) = match self.conn(*id) {
                Some(c) => (c.state, c.doomed),
                None => {
                    self.harness_error("unknown_connection", format!("idle queue holds db {id}"));
                    return view;
                }
            };
            match state {
                CState::Pooled => {}
                CState::Taken => {
                    self.violate(
                        CL_TAKE,
                        format!("conn#{id} was taken (Connection::take) but is in the pool's idle queue; {view}"),
                    );
                    return view;
                }
                CState::Gone if doomed.is_some() => {
                    let (kind, no) = doomed.unwrap();
                    self.violate(
                        CL_BAD,
                        format!("conn#{id}, whose recycle #{no} was answered with {kind}, is in the pool's idle queue; {view}"),
                    );
                    return view;
                }
                other => {
                    self.harness_error(
                        "idle_state",
                        format!("conn#{id} is in the idle queue but the model says {other:?}; {view}"),
                    );
                    return view;
                }
            }
        }
        let clause = if self.takes > 0 { CL_TAKE } else { CL_BAD };
        if !quiescent {
            // every in-flight get owns at most one object that is neither idle nor in a caller's hands
            let lo = self.held + idle.len();
            let hi = lo + self.inflight;
            if snap.size < lo || snap.size > hi || st.max_size != self.max_size {
                self.violate(
                    clause,
                    format!(
                        "pool size bookkeeping: expected {lo} <= size <= {hi} (held {} + idle {} + up to {} in-flight get), observed {view}; {} taken, {} recycles answered badly so far",
                        self.held, idle.len(), self.inflight, self.takes, self.bad_recycles
                    ),
                );
            }
            return view;
        }
        // pooled according to the model but no longer idle
        let mut vanished = Vec::new();
        for c in self.conns.iter_mut() {
            if c.state == CState::Pooled && !idle.contains(&c.id) {
                if c.killed || c.maybe_gone {
                    c.state = CState::Gone;
                    vanished.push((c.id, c.killed));
                } else {
                    vanished.push((-c.id, false));
                }
            }
        }
        for (id, killed) in vanished {
            if id < 0 {
                // The pool let go of a connection although its recycle had been answered
                // correctly. C17 does not forbid that (it only demands that badly answered
                // connections are discarded), so the model follows the pool and counts it.
                self.probe("healthy_connection_discarded");
                if let Some(c) = self.conn(-id) {
                    c.state = CState::Gone;
                }
                continue;
            }
            if killed {
                // the idle disconnect was actually met by a recycle
                self.bad_fired = true;
            }
            self.probe(if killed {
                "dead_idle_connection_discarded"
            } else {
                "tolerated_reply_discarded"
            });
        }
        let exp_size = self.held + idle.len();
        if snap.size != exp_size || st.size != exp_size || st.available != idle.len() || st.max_size != self.max_size {
            self.violate(
                clause,
                format!(
                    "pool size bookkeeping: expected size={} (held {} + idle {}) available={} max_size={}, observed {view}; {} taken, {} recycles answered badly so far",
                    exp_size, self.held, idle.len(), idle.len(), self.max_size, self.takes, self.bad_recycles
                ),
            );
        } else if snap.permits + self.held != self.max_size {
            self.violate(
                clause,
                format!(
                    "slot bookkeeping: expected {} free permits (max_size {} - {} held), observed {view}; {} taken, {} recycles answered badly so far",
                    self.max_size - self.held.min(self.max_size), self.max_size, self.held, self.takes, self.bad_recycles
                ),
            );
        }
        view
    }

    /// End of run: everything returned.
    pub fn check_final(&mut self, st: Status) {
        if self.violation.is_some() {
            return;
        }
        if st.size != st.available {
            let clause = if self.takes > 0 { CL_TAKE } else { CL_BAD };
            self.violate(
                clause,
                format!("end of run, all connections returned: status().size={} != available={}", st.size, st.available),
            );
            return;
        }
        let dead: Vec<i64> = self
            .conns
            .iter()
            .filter(|c| c.state == CState::Pooled && !c.killed && !c.open)
            .map(|c| c.id)
            .collect();
        if let Some(id) = dead.first() {
            self.harness_error(
                "pooled_dead",
                format!("end of run: conn#{id} is pooled according to the model but its stream is closed"),
            );
        }
    }
}

// -------------------------------------------------------------------- RESP

/// Parses one RESP2 command (array of bulk strings). `None`: incomplete.
fn parse_command(buf: &[u8]) -> Option<(Vec<String>, usize)> {
    fn line(buf: &[u8], at: usize) -> Option<(&[u8], usize)> {
        let rest = buf.get(at..)?;
        let p = rest.windows(2).position(|w| w == b"\r\n")?;
        Some((&rest[..p], at + p + 2))
    }
    let (l, mut at) = line(buf, 0)?;
    if l.first() != Some(&b'*') {
        // inline command (not used by redis-rs)
        let s = String::from_utf8_lossy(l).to_string();
        return Some((s.split_whitespace().map(|x| x.to_string()).collect(), at));
    }
    let n: usize = std::str::from_utf8(&l[1..]).ok()?.parse().ok()?;
    let mut args = Vec::with_capacity(n);
    for _ in 0..n {
        let (l, next) = line(buf, at)?;
        let len: usize = std::str::from_utf8(l.get(1..)?).ok()?.parse().ok()?;
        let end = next + len;
        if buf.len() < end + 2 {
            return None;
        }
        args.push(String::from_utf8_lossy(&buf[next..end]).to_string());
        at = end + 2;
    }
    Some((args, at))
}

async fn serve(id: i64, mut s: DuplexStream, kill: Arc<Notify>) {
    let mut buf: Vec<u8> = Vec::new();
    let mut tmp = [0u8; 512];
    loop {
        while let Some((args, used)) = parse_command(&buf) {
            let _ = buf.drain(..used);
            let act = w(|w| w.on_command(id, &args));
            match act {
                Act::Reply(bytes) => {
                    if s.write_all(&bytes).await.is_err() {
                        w(|w| w.on_closed(id, "write failed, client gone"));
                        return;
                    }
                    w(|w| w.on_reply_sent(id, &bytes, false));
                }
                Act::DelayReply(ms, bytes) => {
                    tokio::time::sleep(Duration::from_millis(ms)).await;
                    if s.write_all(&bytes).await.is_err() {
                        w(|w| w.on_closed(id, "delayed reply not delivered, client gone"));
                        return;
                    }
                    w(|w| w.on_reply_sent(id, &bytes, true));
                }
                Act::DelayLatest(ms) => {
                    tokio::time::sleep(Duration::from_millis(ms)).await;
                    let bytes = w(|w| w.resolve_latest(id));
                    if s.write_all(&bytes).await.is_err() {
                        w(|w| w.on_closed(id, "delayed reply not delivered, client gone"));
                        return;
                    }
                    w(|w| w.on_reply_sent(id, &bytes, true));
                }
                Act::Close(why) => {
                    w(|w| w.on_closed(id, why));
                    return;
                }
                Act::Silent => {}
            }
        }
        tokio::select! {
            biased;
            _ = kill.notified() => {
                w(|w| w.on_closed(id, "disconnect_idle"));
                return;
            }
            r = s.read(&mut tmp) => match r {
                Ok(0) | Err(_) => {
                    w(|w| w.on_closed(id, "client closed"));
                    return;
                }
                Ok(n) => buf.extend_from_slice(&tmp[..n]),
            }
        }
    }
}

/// The function installed into `deadpool_redis::verif`: builds the connection
/// over an in-memory duplex pipe to a fresh scripted server task of the
/// current thread's world. The database number carries the server-side
/// connection number so that `get_db()` identifies a client object.
pub fn connector(info: ConnectionInfo, cfg: AsyncConnectionConfig) -> deadpool_redis::verif::ConnectFuture {
    Box::pin(async move {
        let (id, kill) = w(|w| w.new_conn());
        let (client_half, server_half) = tokio::io::duplex(16 * 1024);
        drop(tokio::spawn(serve(id, server_half, kill)));
        let mut ri = info.redis.clone();
        ri.db = id;
        let (conn, driver) = MultiplexedConnection::new_with_config(&ri, client_half, cfg).await?;
        drop(tokio::spawn(driver));
        Ok(conn)
    })
}
