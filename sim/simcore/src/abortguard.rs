//! Last line of defence against two ways in which code under test can take the whole check
//! down instead of failing an oracle:
//!
//! * a panic inside a destructor while another panic is already unwinding (or any other
//!   non-unwinding panic) **aborts the process** – exactly as it would in production;
//! * a blocking call on the simulated (single) OS thread that the simulator does not own – e.g. a
//!   `Mutex::lock()` introduced on the async thread while a simulated worker holds the lock –
//!   **hangs** the worker for good.
//!
//! Every worker registers the scenario it is running in a global slot. The SIGABRT handler and a
//! watchdog thread turn both events into a reported violation: they serialise the scenario of the
//! affected worker into a replay file (`abort: true`), print the VIOLATION line and exit with
//! status 1. Replaying such a file re-runs the scenario under its own schedule seed and aborts /
//! hangs again.
//!
//! The handler allocates and formats, which is not async-signal-safe in general; it only runs
//! when the process is about to die anyway.

use std::{
    cell::Cell,
    path::PathBuf,
    sync::{
        atomic::{AtomicPtr, AtomicU64, AtomicUsize, Ordering},
        Mutex, Once,
    },
    time::{Duration, Instant},
};

pub struct Ctx {
    pub harness: String,
    pub property: String,
    pub seed: u64,
    pub dir: PathBuf,
}

static CTX: Mutex<Option<Ctx>> = Mutex::new(None);

const MAX_WORKERS: usize = 256;

struct Slot {
    scenario: AtomicPtr<()>,
    ser: AtomicUsize,
    beat: AtomicU64,
}

#[allow(clippy::declare_interior_mutable_const)]
const EMPTY: Slot = Slot {
    scenario: AtomicPtr::new(std::ptr::null_mut()),
    ser: AtomicUsize::new(0),
    beat: AtomicU64::new(0),
};
static SLOTS: [Slot; MAX_WORKERS] = [EMPTY; MAX_WORKERS];
static NEXT_WORKER: AtomicUsize = AtomicUsize::new(0);
/// seconds without a heartbeat after which a worker counts as hung
static HANG_SECS: AtomicU64 = AtomicU64::new(15);

thread_local! {
    static WORKER: Cell<usize> = const { Cell::new(usize::MAX) };
}

fn worker_id() -> usize {
    WORKER.with(|w| {
        if w.get() == usize::MAX {
            w.set(NEXT_WORKER.fetch_add(1, Ordering::SeqCst) % MAX_WORKERS);
        }
        w.get()
    })
}

pub fn set_context(ctx: Ctx) {
    *CTX.lock().unwrap() = Some(ctx);
    if let Some(s) = std::env::var("VERIF_HANG_SECS").ok().and_then(|s| s.parse().ok()) {
        HANG_SECS.store(s, Ordering::SeqCst);
    }
    install();
}

type Ser = fn(*const ()) -> String;

/// Marks `sc` as the scenario the current thread is running until the guard is dropped.
pub fn running<S: serde::Serialize>(sc: &S) -> RunGuard {
    fn ser<S: serde::Serialize>(p: *const ()) -> String {
        // SAFETY: the pointer is only dereferenced while the RunGuard (and therefore the
        // borrow of the scenario) is alive, or while its owner thread is hung / aborting.
        let sc: &S = unsafe { &*(p as *const S) };
        serde_json::to_string(sc).unwrap_or_else(|_| "null".into())
    }
    let id = worker_id();
    let slot = &SLOTS[id];
    let prev = (
        slot.scenario.swap(sc as *const S as *mut (), Ordering::SeqCst),
        slot.ser.swap(ser::<S> as Ser as usize, Ordering::SeqCst),
    );
    let _ = slot.beat.fetch_add(1, Ordering::SeqCst);
    RunGuard { id, prev }
}

pub struct RunGuard {
    id: usize,
    prev: (*mut (), usize),
}

impl Drop for RunGuard {
    fn drop(&mut self) {
        let slot = &SLOTS[self.id];
        slot.scenario.store(self.prev.0, Ordering::SeqCst);
        slot.ser.store(self.prev.1, Ordering::SeqCst);
        let _ = slot.beat.fetch_add(1, Ordering::SeqCst);
    }
}

fn install() {
    static ONCE: Once = Once::new();
    ONCE.call_once(|| {
        unsafe {
            let _ = libc::signal(libc::SIGABRT, handler as usize);
        }
        let _ = std::thread::Builder::new().name("verif-watchdog".into()).spawn(watchdog);
    });
}

fn report(id: usize, clause: &str, what: &str) -> bool {
    let slot = &SLOTS[id];
    let p = slot.scenario.load(Ordering::SeqCst);
    let f = slot.ser.load(Ordering::SeqCst);
    let ctx = CTX
        .try_lock()
        .ok()
        .and_then(|g| g.as_ref().map(|c| (c.harness.clone(), c.property.clone(), c.seed, c.dir.clone())));
    let (Some((harness, property, seed, dir)), false, true) = (ctx, p.is_null(), f != 0) else {
        return false;
    };
    // SAFETY: `f` was stored from a `Ser` function pointer by `running`.
    let f: Ser = unsafe { std::mem::transmute::<usize, Ser>(f) };
    let scenario = f(p as *const ());
    let body = format!(
        "{{\"harness\":{:?},\"property\":{:?},\"clause\":{:?},\"detail\":{:?},\"seed\":{},\"run_index\":0,\"scenario\":{},\"decisions\":[],\"log_hash\":0,\"shape\":\"\",\"abort\":true}}",
        harness, property, clause, what, seed, scenario
    );
    let _ = std::fs::create_dir_all(&dir);
    let path = dir.join(format!("{}-{}-{}.json", property, clause, seed));
    let _ = std::fs::write(&path, body);
    let msg = format!(
        "violation: {} [{}] {}\nVIOLATION property={} replay={}\n",
        property,
        clause,
        what,
        property,
        path.display()
    );
    unsafe {
        let _ = libc::write(1, msg.as_ptr() as *const libc::c_void, msg.len());
        libc::_exit(1);
    }
}

extern "C" fn handler(_sig: libc::c_int) {
    let id = WORKER.try_with(|w| w.get()).unwrap_or(usize::MAX);
    if id < MAX_WORKERS {
        let _ = report(
            id,
            "process_abort",
            "the process aborted while running this scenario (panic inside a destructor during unwinding, or another non-unwinding panic)",
        );
    }
    unsafe {
        let _ = libc::signal(libc::SIGABRT, libc::SIG_DFL);
        libc::abort();
    }
}

fn watchdog() {
    let mut last: Vec<(u64, Instant)> = (0..MAX_WORKERS).map(|_| (0, Instant::now())).collect();
    loop {
        std::thread::sleep(Duration::from_millis(500));
        let limit = Duration::from_secs(HANG_SECS.load(Ordering::SeqCst));
        for (id, slot) in SLOTS.iter().enumerate() {
            let beat = slot.beat.load(Ordering::SeqCst);
            if beat != last[id].0 {
                last[id] = (beat, Instant::now());
                continue;
            }
            if !slot.scenario.load(Ordering::SeqCst).is_null() && last[id].1.elapsed() > limit {
                let _ = report(
                    id,
                    "hang",
                    "the scenario did not finish: a simulated thread is blocked in a call the simulator does not own (e.g. a blocking lock taken on the async thread while a simulated worker holds it)",
                );
            }
        }
    }
}
