//! Command-line plumbing shared by the simulator binaries.

use std::path::PathBuf;

use serde_json::json;

use crate::common::*;

pub fn verif_dir() -> PathBuf {
    PathBuf::from(std::env::var("VERIF_DIR").unwrap_or_else(|_| "/verif".into()))
}

pub fn arg_val(args: &[String], name: &str) -> Option<String> {
    args.iter()
        .position(|a| a == name)
        .and_then(|i| args.get(i + 1).cloned())
}

type ExtraFn = Box<dyn Fn(&Agg) -> serde_json::Value + Send + Sync>;
static EXTRA: std::sync::Mutex<Option<ExtraFn>> = std::sync::Mutex::new(None);

/// Registers a function that contributes property-specific keys to `coverage` in the evidence.
pub fn set_extra_evidence(f: impl Fn(&Agg) -> serde_json::Value + Send + Sync + 'static) {
    *EXTRA.lock().unwrap() = Some(Box::new(f));
}

pub struct PropMeta {
    pub level: &'static str,
    pub quick_secs: f64,
    pub thorough_secs: f64,
    pub rule: &'static str,
}

#[allow(clippy::too_many_arguments)]
pub fn finish<H: Harness>(
    h: &H,
    id: &str,
    tier: &str,
    seed: u64,
    m: &PropMeta,
    r: BatchResult<H::Sc>,
    rvs: serde_json::Value,
    assumptions: Vec<String>,
) -> i32 {
    let vd = verif_dir();
    if let Some(e) = &r.harness_error {
        eprintln!("harness error: {e}");
        return 2;
    }
    let mut code = 0;
    let mut violations = 0;
    let mut replay_path = None;
    if let Some(f) = &r.found {
        violations = 1;
        match write_replay(h, &vd.join("replays"), f, seed) {
            Ok(p) => {
                // replay in this process once more from the file to prove exact reproduction
                let txt = std::fs::read_to_string(&p).unwrap();
                let rf: ReplayFile<H::Sc> = serde_json::from_str(&txt).unwrap();
                match replay_file(h, &rf, true) {
                    ReplayVerdict::Reproduced(v, trace) => {
                        let tp = p.with_extension("trace.txt");
                        let mut body = format!(
                            "VIOLATION {} clause {}\n{}\nshape: {}\n\n",
                            v.property, v.clause, v.detail, rf.shape
                        );
                        body.push_str(&trace.join("\n"));
                        let _ = std::fs::write(&tp, body);
                        println!("violation: {} [{}] {}", v.property, v.clause, v.detail);
                        println!("minimised scenario shape: {}", rf.shape);
                        println!("trace: {}", tp.display());
                        // and once more in a fresh process: it must fail the same way there
                        match std::env::current_exe().ok().map(|exe| {
                            std::process::Command::new(exe)
                                .args(["replay", &p.display().to_string(), "--quiet"])
                                .stdout(std::process::Stdio::null())
                                .stderr(std::process::Stdio::null())
                                .status()
                        }) {
                            Some(Ok(st)) if st.code() == Some(1) => {
                                println!("replay in a fresh process reproduced the violation");
                            }
                            other => {
                                eprintln!("harness error: replay in a fresh process did not reproduce the violation ({:?})", other);
                                return 2;
                            }
                        }
                        println!("VIOLATION property={} replay={}", v.property, p.display());
                        replay_path = Some(p);
                        code = 1;
                    }
                    ReplayVerdict::NoViolation(_) => {
                        eprintln!("harness error: replay file did not reproduce the violation");
                        return 2;
                    }
                    ReplayVerdict::Nondeterministic(e) => {
                        eprintln!("harness error: nondeterministic replay: {e}");
                        return 2;
                    }
                }
            }
            Err(e) => {
                eprintln!("harness error: {e}");
                return 2;
            }
        }
    }
    for (p, what) in &r.known_hits {
        println!("KNOWN-FINDING: property={} {}", p, what);
    }
    let mut extra = json!({
        "known_findings_hit": r.known_hits.iter().map(|(p, w)| format!("{p}: {w}")).collect::<Vec<_>>(),
        "replay": replay_path.as_ref().map(|p| p.display().to_string()),
        "workers": std::thread::available_parallelism().map(|n| n.get()).unwrap_or(0),
    });
    if let Some(f) = EXTRA.lock().unwrap().as_ref() {
        if let (Some(e), Some(more)) = (extra.as_object_mut(), f(&r.agg).as_object()) {
            for (k, v) in more {
                let _ = e.insert(k.clone(), v.clone());
            }
        }
    }
    write_evidence(
        &vd.join("evidence").join(format!("{id}.json")),
        id,
        tier,
        seed,
        m.level,
        &r.agg,
        r.wall_s,
        violations,
        m.rule,
        rvs,
        assumptions,
        extra,
    );
    println!(
        "{id} [{tier}] runs={} (corpus {}, grid {}) nontrivial={} distinct_interleavings={} steps={} virtual_ms={} wall={:.1}s -> {}",
        r.agg.runs,
        r.agg.corpus_runs,
        r.agg.grid_runs,
        r.agg.nontrivial_runs,
        r.agg.ileave.len(),
        r.agg.steps,
        r.agg.virtual_ms,
        r.wall_s,
        if code == 0 { "held" } else { "VIOLATED" }
    );
    code
}

pub fn do_replay<H: Harness>(h: &H, rf: &ReplayFile<H::Sc>, path: &str, quiet: bool) -> i32 {
    // a scenario that aborts the process is reported by the SIGABRT handler (exit status 1)
    crate::abortguard::set_context(crate::abortguard::Ctx {
        harness: h.name().to_string(),
        property: rf.property.clone(),
        seed: rf.seed,
        dir: std::path::Path::new(path).parent().map(|p| p.to_path_buf()).unwrap_or_else(|| verif_dir().join("replays")),
    });
    match replay_file(h, rf, true) {
        ReplayVerdict::Reproduced(v, trace) => {
            if !quiet {
                for l in &trace {
                    println!("{l}");
                }
            }
            println!("violation: {} [{}] {}", v.property, v.clause, v.detail);
            println!("VIOLATION property={} replay={}", v.property, path);
            1
        }
        ReplayVerdict::NoViolation(trace) => {
            if !quiet {
                for l in &trace {
                    println!("{l}");
                }
            }
            println!("replay of {path}: no violation on this tree");
            0
        }
        ReplayVerdict::Nondeterministic(e) => {
            eprintln!("harness error: {e}");
            2
        }
    }
}

