//! Command-line plumbing shared by the simulator binaries.

use std::path::PathBuf;

use serde_json::json;

use crate::common::*;
use crate::Violation;

pub fn verif_dir() -> PathBuf {
    PathBuf::from(std::env::var("VERIF_DIR").unwrap_or_else(|_| "/verif".into()))
}

pub fn arg_val(args: &[String], name: &str) -> Option<String> {
    args.iter()
        .position(|a| a == name)
        .and_then(|i| args.get(i + 1).cloned())
}

type ExtraFn = Box<dyn Fn(&Agg) -> serde_json::Value + Send + Sync>;
static EXTRA: std::sync::Mutex<Option<ExtraFn>> = std::sync::Mutex::new(None);

/// Registers a function that contributes property-specific keys to `coverage` in the evidence.
pub fn set_extra_evidence(f: impl Fn(&Agg) -> serde_json::Value + Send + Sync + 'static) {
    *EXTRA.lock().unwrap() = Some(Box::new(f));
}

pub struct PropMeta {
    pub level: &'static str,
    pub quick_secs: f64,
    pub thorough_secs: f64,
    pub rule: &'static str,
}

#[allow(clippy::too_many_arguments)]
pub fn finish<H: Harness>(
    h: &H,
    id: &str,
    tier: &str,
    seed: u64,
    m: &PropMeta,
    r: BatchResult<H::Sc>,
    rvs: serde_json::Value,
    assumptions: Vec<String>,
) -> i32 {
    let vd = verif_dir();
    if let Some(e) = &r.harness_error {
        eprintln!("harness error: {e}");
        return 2;
    }
    let mut code = 0;
    let mut violations = 0;
    let mut replay_path = None;
    if let Some(f) = &r.found {
        violations = 1;
        let mut fallback = false;
        match write_replay(h, &vd.join("replays"), f, seed) {
            Ok(p) => {
                // replay in this process once more from the file to prove exact reproduction
                let txt = std::fs::read_to_string(&p).unwrap();
                let rf: ReplayFile<H::Sc> = serde_json::from_str(&txt).unwrap();
                match replay_file(h, &rf, true) {
                    ReplayVerdict::Reproduced(v, trace) => {
                        let tp = p.with_extension("trace.txt");
                        let mut body = format!(
                            "VIOLATION {} clause {}\n{}\nshape: {}\n\n",
                            v.property, v.clause, v.detail, rf.shape
                        );
                        body.push_str(&trace.join("\n"));
                        let _ = std::fs::write(&tp, body);
                        println!("violation: {} [{}] {}", v.property, v.clause, v.detail);
                        println!("minimised scenario shape: {}", rf.shape);
                        println!("trace: {}", tp.display());
                        // and once more in a fresh process: it must fail the same way there
                        match std::env::current_exe().ok().map(|exe| {
                            std::process::Command::new(exe)
                                .args(["replay", &p.display().to_string(), "--quiet"])
                                .stdout(std::process::Stdio::null())
                                .stderr(std::process::Stdio::null())
                                .status()
                        }) {
                            Some(Ok(st)) if st.code() == Some(1) => {
                                println!("replay in a fresh process reproduced the violation");
                            }
                            other => {
                                eprintln!("note: replay in a fresh process did not reproduce the violation ({:?})", other);
                                fallback = true;
                            }
                        }
                        if !fallback {
                            println!("VIOLATION property={} replay={}", v.property, p.display());
                            replay_path = Some(p);
                            code = 1;
                        }
                    }
                    ReplayVerdict::NoViolation(_) => {
                        eprintln!("note: replay file did not reproduce the violation");
                        fallback = true;
                    }
                    ReplayVerdict::Nondeterministic(e) => {
                        eprintln!("note: nondeterministic replay: {e}");
                        fallback = true;
                    }
                }
            }
            Err(e) => {
                eprintln!("note: {e}");
                fallback = true;
            }
        }
        if fallback {
            // The scenario fails here but not on its own: the code under test carries state from
            // one pool (run) to the next. Find the violation again in a fresh process that executes
            // the seeded runs one after the other on one thread - that history is replayable.
            match sequence_fallback(h, id, tier == "thorough", seed, f, r.n_pre, &vd.join("replays")) {
                Ok((p, v)) => {
                    println!("violation: {} [{}] {}", v.property, v.clause, v.detail);
                    println!("VIOLATION property={} replay={}", v.property, p.display());
                    replay_path = Some(p);
                    code = 1;
                }
                Err(e) => {
                    eprintln!("harness error: a violation was seen but cannot be reproduced, neither on its own nor as a sequence of runs in a fresh process: {e}");
                    return 2;
                }
            }
        }
    }
    if r.found.is_none() {
        if let Some(f) = r.unreproducible.first() {
            // nothing fails on its own, but something failed in the course of the batch
            violations = 1;
            eprintln!(
                "note: {} violation(s) were seen that do not fail on their own in a fresh process (first: {} {})",
                r.unreproducible.len(),
                f.v.signature(),
                f.v.detail
            );
            match sequence_fallback(h, id, tier == "thorough", seed, f, r.n_pre, &vd.join("replays")) {
                Ok((p, v)) => {
                    println!("violation: {} [{}] {}", v.property, v.clause, v.detail);
                    println!("VIOLATION property={} replay={}", v.property, p.display());
                    replay_path = Some(p);
                    code = 1;
                }
                Err(e) => {
                    eprintln!("harness error: a violation was seen but cannot be reproduced, neither on its own nor as a sequence of runs in a fresh process: {e}");
                    return 2;
                }
            }
        }
    }
    for (p, what) in &r.known_hits {
        println!("KNOWN-FINDING: property={} {}", p, what);
    }
    let mut extra = json!({
        "known_findings_hit": r.known_hits.iter().map(|(p, w)| format!("{p}: {w}")).collect::<Vec<_>>(),
        "replay": replay_path.as_ref().map(|p| p.display().to_string()),
        "workers": std::thread::available_parallelism().map(|n| n.get()).unwrap_or(0),
    });
    if let Some(f) = EXTRA.lock().unwrap().as_ref() {
        if let (Some(e), Some(more)) = (extra.as_object_mut(), f(&r.agg).as_object()) {
            for (k, v) in more {
                let _ = e.insert(k.clone(), v.clone());
            }
        }
    }
    write_evidence(
        &vd.join("evidence").join(format!("{id}.json")),
        id,
        tier,
        seed,
        m.level,
        &r.agg,
        r.wall_s,
        violations,
        m.rule,
        rvs,
        assumptions,
        extra,
    );
    println!(
        "{id} [{tier}] runs={} (corpus {}, grid {}) nontrivial={} distinct_interleavings={} steps={} virtual_ms={} wall={:.1}s -> {}",
        r.agg.runs,
        r.agg.corpus_runs,
        r.agg.grid_runs,
        r.agg.nontrivial_runs,
        r.agg.ileave.len(),
        r.agg.steps,
        r.agg.virtual_ms,
        r.wall_s,
        if code == 0 { "held" } else { "VIOLATED" }
    );
    code
}

pub fn do_replay<H: Harness>(h: &H, rf: &ReplayFile<H::Sc>, path: &str, quiet: bool) -> i32 {
    // a scenario that aborts the process is reported by the SIGABRT handler (exit status 1)
    crate::abortguard::set_context(crate::abortguard::Ctx {
        harness: h.name().to_string(),
        property: rf.property.clone(),
        seed: rf.seed,
        dir: std::path::Path::new(path).parent().map(|p| p.to_path_buf()).unwrap_or_else(|| verif_dir().join("replays")),
    });
    if let Some(seq) = &rf.sequence {
        return replay_sequence(h, rf, seq, path);
    }
    match replay_file(h, rf, true) {
        ReplayVerdict::Reproduced(v, trace) => {
            if !quiet {
                for l in &trace {
                    println!("{l}");
                }
            }
            println!("violation: {} [{}] {}", v.property, v.clause, v.detail);
            println!("VIOLATION property={} replay={}", v.property, path);
            1
        }
        ReplayVerdict::NoViolation(trace) => {
            if !quiet {
                for l in &trace {
                    println!("{l}");
                }
            }
            println!("replay of {path}: no violation on this tree");
            0
        }
        ReplayVerdict::Nondeterministic(e) => {
            eprintln!("harness error: {e}");
            2
        }
    }
}



/// Executes the seeded runs `0..=upto` of a batch one after the other on this thread. With an
/// expectation: exit 1 iff the first violation is the expected one at the expected run; without:
/// the first violation is written to `<path>.found.json` (exit 1), exit 0 if there is none.
fn replay_sequence<H: Harness>(h: &H, rf: &ReplayFile<H::Sc>, seq: &SeqInfo, path: &str) -> i32 {
    let t0 = std::time::Instant::now();
    for i in 0..=seq.upto {
        let sc = seeded_scenario(h, rf.seed, &seq.profile, seq.thorough, i);
        let o = {
            let _g = crate::abortguard::running(&sc);
            h.run(&sc, None, false)
        };
        if let Some(v) = o.violation {
            if v.property == "HARNESS" {
                eprintln!("harness error: {} {}", v.clause, v.detail);
                return 2;
            }
            return match (&seq.expect_index, &seq.expect_signature) {
                (Some(ei), Some(es)) => {
                    if *ei == i && *es == v.signature() {
                        println!("violation: {} [{}] {}", v.property, v.clause, v.detail);
                        println!("reproduced as run {i} of a sequence of {} runs in one process", i + 1);
                        println!("VIOLATION property={} replay={}", v.property, path);
                        1
                    } else {
                        eprintln!("harness error: sequence replay found {} at run {i}, expected {es} at run {ei}", v.signature());
                        2
                    }
                }
                _ => {
                    let body = json!({
                        "index": i,
                        "signature": v.signature(),
                        "property": v.property,
                        "clause": v.clause,
                        "detail": v.detail,
                        "scenario": serde_json::to_value(&sc).unwrap_or(serde_json::Value::Null),
                        "shape": h.shape(&sc),
                    });
                    let _ = std::fs::write(format!("{path}.found.json"), body.to_string());
                    1
                }
            };
        }
        if seq.expect_index.is_none() && t0.elapsed().as_secs() > 120 {
            break;
        }
    }
    println!("replay of {path}: no violation in the sequence on this tree");
    0
}

fn sequence_fallback<H: Harness>(
    h: &H,
    profile: &str,
    thorough: bool,
    seed: u64,
    f: &Found<H::Sc>,
    n_pre: u64,
    dir: &std::path::Path,
) -> Result<(std::path::PathBuf, Violation), String> {
    let exe = std::env::current_exe().map_err(|e| e.to_string())?;
    std::fs::create_dir_all(dir).map_err(|e| e.to_string())?;
    let seeded_idx = f.run_index.saturating_sub(n_pre);
    let upto = (seeded_idx.saturating_mul(8)).max(20_000);
    let mk = |expect: Option<(u64, String)>, v: &Violation, sc: &H::Sc, shape: String| ReplayFile {
        harness: h.name().to_string(),
        property: v.property.clone(),
        clause: v.clause.clone(),
        detail: v.detail.clone(),
        seed,
        run_index: expect.as_ref().map(|e| e.0).unwrap_or(0),
        scenario: sc.clone(),
        decisions: Vec::new(),
        log_hash: 0,
        shape,
        abort: false,
        sequence: Some(SeqInfo {
            profile: profile.to_string(),
            thorough,
            upto: expect.as_ref().map(|e| e.0).unwrap_or(upto),
            expect_index: expect.as_ref().map(|e| e.0),
            expect_signature: expect.map(|e| e.1),
        }),
    };
    let scan = dir.join(format!("{}-sequence-scan-{}.json", f.v.property, seed));
    std::fs::write(&scan, serde_json::to_string(&mk(None, &f.v, &f.sc, String::new())).unwrap()).map_err(|e| e.to_string())?;
    let found_path = format!("{}.found.json", scan.display());
    let _ = std::fs::remove_file(&found_path);
    let run = |p: &std::path::Path| {
        std::process::Command::new(&exe)
            .args(["replay", &p.display().to_string(), "--quiet"])
            .stdout(std::process::Stdio::null())
            .stderr(std::process::Stdio::null())
            .status()
            .ok()
            .and_then(|s| s.code())
    };
    if run(&scan) != Some(1) {
        return Err("a sequential scan of the seeded runs in a fresh process shows no violation".into());
    }
    let txt = std::fs::read_to_string(&found_path).map_err(|e| format!("scan result: {e}"))?;
    let fv: serde_json::Value = serde_json::from_str(&txt).map_err(|e| e.to_string())?;
    let idx = fv["index"].as_u64().ok_or("scan result without index")?;
    let sig = fv["signature"].as_str().ok_or("scan result without signature")?.to_string();
    let sc: H::Sc = serde_json::from_value(fv["scenario"].clone()).map_err(|e| e.to_string())?;
    let v = Violation::at(
        fv["property"].as_str().unwrap_or(profile),
        fv["clause"].as_str().unwrap_or(""),
        format!(
            "{} - only as run {idx} of a sequence of runs executed in one process: state is carried from one pool to the next",
            fv["detail"].as_str().unwrap_or("")
        ),
        0,
    );
    let shape = format!("seeded runs 0..={idx} of profile {profile} (seed {seed}) one after the other; the last one: {}", fv["shape"].as_str().unwrap_or(""));
    let path = dir.join(format!("{}-{}-sequence-{}.json", v.property, v.clause, seed));
    std::fs::write(&path, serde_json::to_string_pretty(&mk(Some((idx, sig)), &v, &sc, shape.clone())).unwrap()).map_err(|e| e.to_string())?;
    println!("minimised scenario shape: {shape}");
    // and it must fail the same way when the file is replayed, twice
    for _ in 0..2 {
        if run(&path) != Some(1) {
            return Err("the sequence does not fail the same way twice".into());
        }
    }
    println!("replay in a fresh process reproduced the violation (sequence of {} runs)", idx + 1);
    let _ = std::fs::remove_file(&scan);
    let _ = std::fs::remove_file(&found_path);
    Ok((path, v))
}
