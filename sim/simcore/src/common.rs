//! Pieces shared by every world: run outcome, harness trait, batch runner,
//! shrinker, replay files, evidence writer, known findings.

use std::{
    collections::{BTreeMap, HashSet},
    path::{Path, PathBuf},
    sync::{
        atomic::{AtomicBool, AtomicU64, Ordering},
        Mutex,
    },
    time::Instant,
};

use serde::{de::DeserializeOwned, Deserialize, Serialize};
use serde_json::{json, Value};

use crate::{Decision, Violation};
use crate::rng::{mix, Rng};

#[derive(Default)]
pub struct Outcome {
    pub violation: Option<Violation>,
    pub diverged: Option<String>,
    pub decisions: Vec<Decision>,
    pub log_hash: u64,
    pub trace: Vec<String>,
    pub steps: u64,
    pub switches: u64,
    pub virtual_ms: u64,
    pub ops: u64,
    pub nontrivial: bool,
    pub ileave: u64,
    pub faults: BTreeMap<String, u64>,
    pub probes: BTreeMap<String, u64>,
    /// engine-level fault kinds fired in this run
    pub states: Vec<u64>,
    pub step_cap_hit: bool,
    /// ordered site pairs at which a context switch happened (engine E1)
    pub switch_pairs: Vec<u32>,
}

pub trait Harness: Sync {
    type Sc: Clone + Serialize + DeserializeOwned + Send + Sync + PartialEq;
    fn name(&self) -> &'static str;
    fn generate(&self, rng: &mut Rng, profile: &str, thorough: bool) -> Self::Sc;
    fn run(&self, sc: &Self::Sc, replay: Option<Vec<Decision>>, trace: bool) -> Outcome;
    /// Smaller / simpler variants of the scenario, most aggressive first.
    fn shrink_candidates(&self, sc: &Self::Sc) -> Vec<Self::Sc>;
    fn set_sched_seed(&self, sc: &mut Self::Sc, seed: u64);
    /// Deterministic sub-grid enumerated before the seeded runs (may be empty).
    fn grid(&self, _profile: &str, _thorough: bool) -> Vec<Self::Sc> {
        Vec::new()
    }
    /// Short canonical description of a (minimised) scenario, used to match known findings.
    fn shape(&self, sc: &Self::Sc) -> String;
}

#[derive(Serialize, Deserialize, Clone, Debug)]
pub struct ReplayFile<S> {
    pub harness: String,
    pub property: String,
    pub clause: String,
    pub detail: String,
    pub seed: u64,
    pub run_index: u64,
    pub scenario: S,
    pub decisions: Vec<Decision>,
    pub log_hash: u64,
    pub shape: String,
    /// written by the SIGABRT handler: the scenario aborted the process; replay re-runs it under
    /// its own schedule seed instead of a decision list
    #[serde(default)]
    pub abort: bool,
    /// the violation only shows after the preceding seeded runs of the same batch were executed
    /// in the same process (the code under test keeps process-global state): replay re-executes
    /// the seeded runs `0..=upto` one after the other on one thread
    #[serde(default)]
    pub sequence: Option<SeqInfo>,
}

#[derive(Serialize, Deserialize, Clone, Debug)]
pub struct SeqInfo {
    pub profile: String,
    pub thorough: bool,
    pub upto: u64,
    /// None: scan and report the first violation; Some: it must occur at exactly this run
    pub expect_index: Option<u64>,
    pub expect_signature: Option<String>,
}

/// The i-th seeded scenario of a batch (the same derivation `run_batch` uses).
pub fn seeded_scenario<H: Harness>(h: &H, seed: u64, profile: &str, thorough: bool, i: u64) -> H::Sc {
    let mut rng = Rng::new(mix(&[seed, profile_hash(profile), i]));
    h.generate(&mut rng, profile, thorough)
}

#[derive(Serialize, Deserialize, Clone, Debug)]
pub struct KnownFinding {
    pub status: String, // "open" | "fixed"
    pub property: String,
    #[serde(default)]
    pub clause: String,
    /// substrings that must all occur in the shape of the minimised scenario
    #[serde(default)]
    pub shape_contains: Vec<String>,
    #[serde(default)]
    pub what: String,
    #[serde(default)]
    pub commit: String,
}

pub fn load_known(path: &Path) -> Vec<KnownFinding> {
    match std::fs::read_to_string(path) {
        Ok(s) => serde_json::from_str::<Vec<KnownFinding>>(&s).unwrap_or_else(|e| {
            eprintln!("harness error: cannot parse {}: {e}", path.display());
            std::process::exit(2);
        }),
        Err(_) => Vec::new(),
    }
}

pub fn match_known<'a>(known: &'a [KnownFinding], v: &Violation, shape: &str) -> Option<&'a KnownFinding> {
    known.iter().find(|k| {
        k.status == "open"
            && k.property == v.property
            && (k.clause.is_empty() || k.clause == v.clause)
            && k.shape_contains.iter().all(|s| shape.contains(s.as_str()))
    })
}

#[derive(Default)]
pub struct Agg {
    pub runs: u64,
    pub grid_runs: u64,
    pub corpus_runs: u64,
    pub steps: u64,
    pub switches: u64,
    pub virtual_ms: u64,
    pub ops: u64,
    pub nontrivial_runs: u64,
    pub step_cap_hits: u64,
    pub faults: BTreeMap<String, u64>,
    pub probes: BTreeMap<String, u64>,
    pub ileave: HashSet<u64>,
    pub ileave_capped: bool,
    pub states: HashSet<u64>,
    pub switch_pairs: HashSet<u32>,
    pub samples: Vec<Value>,
}

const ILEAVE_CAP: usize = 3_000_000;

impl Agg {
    pub fn absorb(&mut self, o: &Outcome) {
        self.runs += 1;
        self.steps += o.steps;
        self.switches += o.switches;
        self.virtual_ms += o.virtual_ms;
        self.ops += o.ops;
        if o.step_cap_hit {
            self.step_cap_hits += 1;
        }
        for (k, v) in &o.faults {
            *self.faults.entry(k.clone()).or_insert(0) += v;
        }
        for (k, v) in &o.probes {
            *self.probes.entry(k.clone()).or_insert(0) += v;
        }
        if o.nontrivial {
            self.nontrivial_runs += 1;
            if self.ileave.len() < ILEAVE_CAP {
                let _ = self.ileave.insert(o.ileave);
            } else {
                self.ileave_capped = true;
            }
        }
        for s in &o.states {
            let _ = self.states.insert(*s);
        }
        for p in &o.switch_pairs {
            let _ = self.switch_pairs.insert(*p);
        }
    }
    pub fn merge(&mut self, other: Agg) {
        self.runs += other.runs;
        self.grid_runs += other.grid_runs;
        self.corpus_runs += other.corpus_runs;
        self.steps += other.steps;
        self.switches += other.switches;
        self.virtual_ms += other.virtual_ms;
        self.ops += other.ops;
        self.nontrivial_runs += other.nontrivial_runs;
        self.step_cap_hits += other.step_cap_hits;
        for (k, v) in other.faults {
            *self.faults.entry(k).or_insert(0) += v;
        }
        for (k, v) in other.probes {
            *self.probes.entry(k).or_insert(0) += v;
        }
        if other.ileave_capped {
            self.ileave_capped = true;
        }
        for h in other.ileave {
            if self.ileave.len() < ILEAVE_CAP * 4 {
                let _ = self.ileave.insert(h);
            } else {
                self.ileave_capped = true;
            }
        }
        self.states.extend(other.states);
        self.switch_pairs.extend(other.switch_pairs);
        self.samples.extend(other.samples);
    }
}

pub struct Found<S> {
    pub sc: S,
    pub v: Violation,
    pub run_index: u64,
}

pub struct BatchCfg {
    pub profile: String,
    pub seed: u64,
    pub thorough: bool,
    pub max_runs: u64,
    pub secs: f64,
    pub workers: usize,
    pub known: Vec<KnownFinding>,
    pub corpus_dir: Option<PathBuf>,
}

pub struct BatchResult<S> {
    pub agg: Agg,
    pub found: Option<Found<S>>,
    pub known_hits: Vec<(String, String)>,
    pub wall_s: f64,
    pub harness_error: Option<String>,
    /// corpus + grid cases that precede the seeded runs in the run index
    pub n_pre: u64,
    /// violations seen during the batch that fail neither minimised nor as found when replayed
    /// on their own in a fresh process (they depend on what earlier runs left behind)
    pub unreproducible: Vec<Found<S>>,
}

fn profile_hash(p: &str) -> u64 {
    let mut h = crate::rng::Hasher::default();
    h.str(p);
    h.0
}

/// Runs corpus, grid and seeded batch. Stops at the first violation that is not a known finding.
pub fn run_batch<H: Harness>(h: &H, cfg: &BatchCfg) -> BatchResult<H::Sc> {
    crate::abortguard::set_context(crate::abortguard::Ctx {
        harness: h.name().to_string(),
        property: cfg.profile.clone(),
        seed: cfg.seed,
        dir: crate::cli::verif_dir().join("replays"),
    });
    let start = Instant::now();
    let stop = AtomicBool::new(false);
    let next = AtomicU64::new(0);
    let found: Mutex<Option<Found<H::Sc>>> = Mutex::new(None);
    let known_hits: Mutex<Vec<(String, String)>> = Mutex::new(Vec::new());
    let unrepro: Mutex<Vec<Found<H::Sc>>> = Mutex::new(Vec::new());
    let herr: Mutex<Option<String>> = Mutex::new(None);
    let total = Mutex::new(Agg::default());

    // phase 0: regression corpus (replay files of every failure ever found for this property)
    let mut pre: Vec<(H::Sc, bool)> = Vec::new();
    if let Some(dir) = &cfg.corpus_dir {
        if let Ok(rd) = std::fs::read_dir(dir) {
            let mut files: Vec<PathBuf> = rd.filter_map(|e| e.ok().map(|e| e.path())).collect();
            files.sort();
            for f in files {
                if f.extension().map(|e| e == "json").unwrap_or(false) {
                    let txt = std::fs::read_to_string(&f).unwrap_or_default();
                    // files written by another harness of the same property are not ours
                    let harness = serde_json::from_str::<Value>(&txt)
                        .ok()
                        .and_then(|v| v["harness"].as_str().map(|s| s.to_string()));
                    if harness.as_deref() != Some(h.name()) {
                        if harness.is_none() {
                            *herr.lock().unwrap() = Some(format!("cannot read corpus file {}", f.display()));
                        }
                        continue;
                    }
                    match serde_json::from_str::<ReplayFile<H::Sc>>(&txt) {
                        Ok(rf) => pre.push((rf.scenario, true)),
                        Err(e) => {
                            *herr.lock().unwrap() = Some(format!("cannot read corpus file {}: {e}", f.display()));
                        }
                    }
                }
            }
        }
    }
    let n_corpus = pre.len();
    for sc in h.grid(&cfg.profile, cfg.thorough) {
        pre.push((sc, false));
    }
    let n_pre = pre.len() as u64;
    let pre = &pre;

    let handle_violation = |sc: &H::Sc, v: Violation, idx: u64| {
        // classification against known findings happens on the minimised scenario,
        // so the first step is always to shrink.
        let (msc, mv) = shrink(h, sc, &v);
        let shape = h.shape(&msc);
        if let Some(k) = match_known(&cfg.known, &mv, &shape) {
            let mut kh = known_hits.lock().unwrap();
            let key = (k.property.clone(), k.what.clone());
            if !kh.contains(&key) {
                kh.push(key);
            }
            return;
        }
        // A violation counts only if it fails again on its own in a fresh process: minimised, or
        // else as it was found. One that does not (the code under test carries state over from
        // earlier runs) is set aside and the batch goes on looking.
        let dir = crate::cli::verif_dir().join("replays");
        let (fsc, fv) = if fresh_reproduces(h, &msc, &mv, idx, cfg.seed, &dir) {
            (msc, mv)
        } else if fresh_reproduces(h, sc, &v, idx, cfg.seed, &dir) {
            eprintln!("note: the minimised scenario does not fail on its own in a fresh process; reporting the scenario as found");
            (sc.clone(), v)
        } else {
            let mut u = unrepro.lock().unwrap();
            u.push(Found { sc: sc.clone(), v, run_index: idx });
            if u.len() >= 40 {
                stop.store(true, Ordering::SeqCst);
            }
            return;
        };
        let mut f = found.lock().unwrap();
        if f.is_none() {
            *f = Some(Found {
                sc: fsc,
                v: fv,
                run_index: idx,
            });
        }
        stop.store(true, Ordering::SeqCst);
    };

    std::thread::scope(|s| {
        for _w in 0..cfg.workers {
            s.spawn(|| {
                let mut agg = Agg::default();
                let ph = profile_hash(&cfg.profile);
                loop {
                    if stop.load(Ordering::SeqCst) {
                        break;
                    }
                    let i = next.fetch_add(1, Ordering::SeqCst);
                    if i >= n_pre + cfg.max_runs {
                        break;
                    }
                    if i >= n_pre && start.elapsed().as_secs_f64() > cfg.secs {
                        break;
                    }
                    let sc = if i < n_pre {
                        let (sc, is_corpus) = &pre[i as usize];
                        if *is_corpus {
                            agg.corpus_runs += 1;
                        } else {
                            agg.grid_runs += 1;
                        }
                        sc.clone()
                    } else {
                        let run_seed = mix(&[cfg.seed, ph, i - n_pre]);
                        let mut rng = Rng::new(run_seed);
                        h.generate(&mut rng, &cfg.profile, cfg.thorough)
                    };
                    let o = {
                        let _g = crate::abortguard::running(&sc);
                        std::panic::catch_unwind(std::panic::AssertUnwindSafe(|| h.run(&sc, None, false)))
                    };
                    let o = match o {
                        Ok(o) => o,
                        Err(p) => {
                            // a panic that escaped the harness itself: never a verdict
                            *herr.lock().unwrap() = Some(format!(
                                "harness panicked outside the simulated run: {} (scenario {})",
                                panic_text(&p),
                                serde_json::to_string(&sc).unwrap_or_default()
                            ));
                            stop.store(true, Ordering::SeqCst);
                            break;
                        }
                    };
                    agg.absorb(&o);
                    if agg.samples.len() < 2 && o.nontrivial && i >= n_pre {
                        agg.samples.push(json!({
                            "run_index": i - n_pre,
                            "scenario": serde_json::to_value(&sc).unwrap_or(Value::Null),
                            "steps": o.steps,
                            "context_switches": o.switches,
                            "first_decisions": o.decisions.iter().take(40).map(|d| format!("{:?}", d)).collect::<Vec<_>>(),
                        }));
                    }
                    if let Some(e) = o.diverged {
                        *herr.lock().unwrap() = Some(format!("run diverged without replay: {e}"));
                        stop.store(true, Ordering::SeqCst);
                        break;
                    }
                    if let Some(v) = o.violation {
                        if v.property == "HARNESS" {
                            *herr.lock().unwrap() = Some(format!("{}: {}", v.clause, v.detail));
                            stop.store(true, Ordering::SeqCst);
                            break;
                        }
                        handle_violation(&sc, v, i);
                    }
                }
                total.lock().unwrap().merge(agg);
            });
        }
    });
    let _ = n_corpus;
    BatchResult {
        agg: total.into_inner().unwrap(),
        found: found.into_inner().unwrap(),
        known_hits: known_hits.into_inner().unwrap(),
        wall_s: start.elapsed().as_secs_f64(),
        harness_error: herr.into_inner().unwrap(),
        n_pre,
        unreproducible: unrepro.into_inner().unwrap(),
    }
}

pub fn panic_text(p: &Box<dyn std::any::Any + Send>) -> String {
    if let Some(s) = p.downcast_ref::<&str>() {
        s.to_string()
    } else if let Some(s) = p.downcast_ref::<String>() {
        s.clone()
    } else {
        "<non-string payload>".into()
    }
}

/// Does this scenario fail with the same clause when it is replayed on its own in a fresh process?
fn fresh_reproduces<H: Harness>(h: &H, sc: &H::Sc, v: &Violation, idx: u64, seed: u64, dir: &Path) -> bool {
    let f = Found { sc: sc.clone(), v: v.clone(), run_index: idx };
    let tmp = dir.join(format!(".probe-{}-{}", std::process::id(), idx));
    let Ok(p) = write_replay(h, &tmp, &f, seed) else {
        let _ = std::fs::remove_dir_all(&tmp);
        return false;
    };
    let ok = std::env::current_exe()
        .ok()
        .and_then(|exe| {
            std::process::Command::new(exe)
                .args(["replay", &p.display().to_string(), "--quiet"])
                .stdout(std::process::Stdio::null())
                .stderr(std::process::Stdio::null())
                .status()
                .ok()
        })
        .and_then(|s| s.code())
        == Some(1);
    let _ = std::fs::remove_dir_all(&tmp);
    ok
}

/// Minimises a failing scenario: a candidate is accepted only if the same clause of
/// the same property fails (under its own or one of a few fresh schedule seeds).
pub fn shrink<H: Harness>(h: &H, sc: &H::Sc, v: &Violation) -> (H::Sc, Violation) {
    let sig = v.signature();
    let mut best = sc.clone();
    let mut best_v = v.clone();
    let mut budget = 4000u32;
    let mut improved = true;
    while improved && budget > 0 {
        improved = false;
        for cand in h.shrink_candidates(&best) {
            if budget == 0 {
                break;
            }
            if cand == best {
                continue;
            }
            let mut hit = None;
            for k in 0..12u64 {
                if budget == 0 {
                    break;
                }
                budget -= 1;
                let mut c = cand.clone();
                if k > 0 {
                    h.set_sched_seed(&mut c, mix(&[0x5eed, k]));
                }
                let o = {
                    let _g = crate::abortguard::running(&c);
                    std::panic::catch_unwind(std::panic::AssertUnwindSafe(|| h.run(&c, None, false)))
                };
                // a candidate on which the harness itself panics is simply not taken
                let o = match o {
                    Ok(o) => o,
                    Err(p) => {
                        eprintln!("note: harness panicked on a shrink candidate (skipped): {}", panic_text(&p));
                        continue;
                    }
                };
                if let Some(cv) = o.violation {
                    if cv.signature() == sig {
                        hit = Some((c, cv));
                        break;
                    }
                }
            }
            if let Some((c, cv)) = hit {
                best = c;
                best_v = cv;
                improved = true;
                break;
            }
        }
    }
    (best, best_v)
}

/// Writes the replay file for a minimised failing scenario (re-running it to
/// record the exact decision list and the event-log hash).
pub fn write_replay<H: Harness>(
    h: &H,
    dir: &Path,
    f: &Found<H::Sc>,
    seed: u64,
) -> Result<PathBuf, String> {
    let o = h.run(&f.sc, None, false);
    let v = match &o.violation {
        Some(v) if v.signature() == f.v.signature() => v.clone(),
        other => {
            return Err(format!(
                "minimised scenario did not reproduce on re-run: expected {}, got {:?}",
                f.v.signature(),
                other.as_ref().map(|v| v.signature())
            ))
        }
    };
    let rf = ReplayFile {
        harness: h.name().to_string(),
        property: v.property.clone(),
        clause: v.clause.clone(),
        detail: v.detail.clone(),
        seed,
        run_index: f.run_index,
        shape: h.shape(&f.sc),
        scenario: f.sc.clone(),
        decisions: o.decisions.clone(),
        log_hash: o.log_hash,
        abort: false,
        sequence: None,
    };
    std::fs::create_dir_all(dir).map_err(|e| e.to_string())?;
    let path = dir.join(format!("{}-{}-{}.json", v.property, v.clause, seed));
    std::fs::write(&path, serde_json::to_string_pretty(&rf).unwrap()).map_err(|e| e.to_string())?;
    Ok(path)
}

pub enum ReplayVerdict {
    Reproduced(Violation, Vec<String>),
    NoViolation(Vec<String>),
    Nondeterministic(String),
}

pub fn replay_file<H: Harness>(h: &H, rf: &ReplayFile<H::Sc>, trace: bool) -> ReplayVerdict {
    let _g = crate::abortguard::running(&rf.scenario);
    if rf.abort {
        // expected to abort again (the SIGABRT handler then reports it); if it does not, any
        // violation it shows is reported, otherwise the tree no longer has the problem
        let o = h.run(&rf.scenario, None, trace);
        return match o.violation {
            Some(v) => ReplayVerdict::Reproduced(v, o.trace),
            None => ReplayVerdict::NoViolation(o.trace),
        };
    }
    let o = h.run(&rf.scenario, Some(rf.decisions.clone()), trace);
    if let Some(e) = o.diverged {
        return ReplayVerdict::Nondeterministic(format!("decision list does not fit: {e}"));
    }
    match o.violation {
        Some(v) => {
            if v.property == rf.property && v.clause == rf.clause {
                if o.log_hash != rf.log_hash {
                    return ReplayVerdict::Nondeterministic(format!(
                        "same violation but event-log hash differs ({:x} vs {:x})",
                        o.log_hash, rf.log_hash
                    ));
                }
                ReplayVerdict::Reproduced(v, o.trace)
            } else {
                ReplayVerdict::Reproduced(v, o.trace)
            }
        }
        None => ReplayVerdict::NoViolation(o.trace),
    }
}

#[allow(clippy::too_many_arguments)]
pub fn write_evidence(
    path: &Path,
    property: &str,
    tier: &str,
    seed: u64,
    level: &str,
    agg: &Agg,
    wall_s: f64,
    violations: u64,
    rule: &str,
    real_vs_stub: Value,
    assumptions: Vec<String>,
    extra: Value,
) {
    let per_hour = if wall_s > 0.0 {
        (agg.runs as f64 / wall_s * 3600.0) as u64
    } else {
        0
    };
    let mut coverage = json!({
        "evaluations": agg.runs,
        "distinct_nontrivial": agg.ileave.len(),
        "distinct_nontrivial_is_lower_bound": agg.ileave_capped,
        "rule": rule,
        "samples": agg.samples,
        "runs_per_hour": per_hour,
        "seeds": format!("run i uses mix(VERIF_SEED={}, profile, i), i in 0..{}", seed, agg.runs.saturating_sub(agg.grid_runs + agg.corpus_runs)),
        "corpus_replays": agg.corpus_runs,
        "grid_cases": agg.grid_runs,
        "simulated_steps": agg.steps,
        "context_switches": agg.switches,
        "simulated_time_ms": agg.virtual_ms,
        "pool_operations": agg.ops,
        "nontrivial_runs": agg.nontrivial_runs,
        "step_cap_hits": agg.step_cap_hits,
        "fault_kinds_fired": agg.faults,
        "probes": agg.probes,
        "distinct_abstract_states": agg.states.len(),
        "distinct_ordered_switch_site_pairs": agg.switch_pairs.len(),
        "real_vs_stub": real_vs_stub,
    });
    if let (Some(c), Some(e)) = (coverage.as_object_mut(), extra.as_object()) {
        for (k, v) in e {
            let _ = c.insert(k.clone(), v.clone());
        }
    }
    let ev = json!({
        "property_id": property,
        "tier": tier,
        "seed": seed,
        "level": level,
        "coverage": coverage,
        "assumptions": assumptions,
        "wall_s": wall_s,
        "violations": violations,
    });
    if let Some(dir) = path.parent() {
        let _ = std::fs::create_dir_all(dir);
    }
    std::fs::write(path, serde_json::to_string_pretty(&ev).unwrap()).expect("write evidence");
}
