//! Shared pieces of the simulators: the one PRNG, run outcome / harness trait,
//! batch runner, shrinker, replay files, evidence writer, known findings.
pub mod abortguard;
pub mod cli;
pub mod common;
pub mod phased;
pub mod rng;

use serde::{Deserialize, Serialize};

#[derive(Clone, Copy, Debug, PartialEq, Eq, Serialize, Deserialize)]
pub enum Decision {
    /// Resume actor
    Run(usize),
    /// Open gate (world-defined id)
    Gate(u32),
    /// Advance the virtual clock to the next candidate instant
    Advance,
    /// Make the actor drop the future it is pending on
    Cancel(usize),
    /// Poll a pending actor although nobody woke it
    Spurious(usize),
}

#[derive(Clone, Debug, Serialize, Deserialize, PartialEq, Eq)]
pub struct Violation {
    pub property: String,
    pub clause: String,
    pub detail: String,
    pub step: u64,
}

impl Violation {
    pub fn at(property: &str, clause: &str, detail: String, step: u64) -> Self {
        Violation {
            property: property.to_string(),
            clause: clause.to_string(),
            detail,
            step,
        }
    }
    pub fn signature(&self) -> String {
        format!("{}:{}", self.property, self.clause)
    }
}
