//! OS thread migration as a fault: the top-level future of a run is polled in phases that
//! alternate between two helper OS threads, one thread at a time. A task of the run ends the
//! current phase by setting `request` and waking the waker in `waker_slot`. Execution stays
//! strictly sequential, so the run is as deterministic as it was on one thread - but anything that
//! is tied to the calling thread (`thread_local!` state) now sees what a work-stealing runtime
//! does to tasks all the time.
//!
//! Creating and destroying threads is expensive in a process whose other threads fault pages all
//! the time, so every batch worker keeps its pair of helpers for a number of runs before it
//! replaces them with fresh ones (a replay in a fresh process always starts with fresh helpers).

use std::{
    cell::RefCell,
    future::Future,
    panic::{catch_unwind, resume_unwind, AssertUnwindSafe},
    pin::Pin,
    sync::{
        atomic::{AtomicBool, Ordering},
        mpsc::{channel, Receiver, Sender},
        Mutex,
    },
    task::{Poll, Waker},
};

type Job = Box<dyn FnOnce() + Send + 'static>;

struct Helper {
    tx: Sender<Job>,
    done: Receiver<Result<(), Box<dyn std::any::Any + Send>>>,
}

impl Helper {
    fn new() -> Helper {
        let (tx, rx) = channel::<Job>();
        let (dtx, done) = channel();
        let _ = std::thread::Builder::new().name("verif-helper".into()).spawn(move || {
            while let Ok(job) = rx.recv() {
                let r = catch_unwind(AssertUnwindSafe(job));
                if dtx.send(r).is_err() {
                    break;
                }
            }
        });
        Helper { tx, done }
    }

    /// Runs `f` on the helper thread and waits for it.
    fn run<'a>(&self, f: impl FnOnce() + Send + 'a) {
        let job: Box<dyn FnOnce() + Send + 'a> = Box::new(f);
        // SAFETY: this function does not return before the helper has finished (or dropped) the
        // job, so everything the closure borrows outlives its use on the other thread.
        let job: Job = unsafe { std::mem::transmute(job) };
        self.tx.send(job).expect("helper thread is gone");
        match self.done.recv().expect("helper thread is gone") {
            Ok(()) => {}
            Err(p) => resume_unwind(p),
        }
    }
}

struct Pair {
    h: [Helper; 2],
    uses: u32,
}

thread_local! {
    static PAIR: RefCell<Option<Pair>> = const { RefCell::new(None) };
}

/// `block_on(f)` must drive `f` on the run's (single-threaded) executor from the calling thread.
/// `enter` / `leave` run on the helper thread around every phase (e.g. to hand thread-local harness
/// state over). Returns the future's output and the number of phases.
pub fn run_alternating<T: Send>(
    fut: Pin<Box<dyn Future<Output = T> + Send + '_>>,
    block_on: &(dyn Fn(Pin<&mut (dyn Future<Output = Option<T>> + '_)>) -> Option<T> + Sync),
    request: &AtomicBool,
    waker_slot: &Mutex<Option<Waker>>,
    enter: &(dyn Fn() + Sync),
    leave: &(dyn Fn() + Sync),
) -> (T, u64) {
    let mut pair = PAIR.with(|p| p.borrow_mut().take());
    if pair.as_ref().map(|p| p.uses >= 64).unwrap_or(true) {
        pair = Some(Pair { h: [Helper::new(), Helper::new()], uses: 0 });
    }
    let mut pair = pair.unwrap();
    pair.uses += 1;
    let fut = Mutex::new(fut);
    let mut phases = 0u64;
    let result = loop {
        let who = (phases % 2) as usize;
        phases += 1;
        let slot: Mutex<Option<T>> = Mutex::new(None);
        pair.h[who].run(|| {
            enter();
            let r = {
                let mut f = fut.lock().unwrap();
                let phase = std::pin::pin!(std::future::poll_fn(|cx| {
                    *waker_slot.lock().unwrap() = Some(cx.waker().clone());
                    match f.as_mut().poll(cx) {
                        Poll::Ready(v) => Poll::Ready(Some(v)),
                        Poll::Pending => {
                            if request.swap(false, Ordering::SeqCst) {
                                Poll::Ready(None)
                            } else {
                                Poll::Pending
                            }
                        }
                    }
                }));
                block_on(phase)
            };
            leave();
            *slot.lock().unwrap() = r;
        });
        if let Some(v) = slot.into_inner().unwrap() {
            break v;
        }
    };
    *waker_slot.lock().unwrap() = None;
    PAIR.with(|p| *p.borrow_mut() = Some(pair));
    (result, phases)
}
