//! OS thread migration as a fault: the top-level future of a run is polled in phases that
//! alternate between two helper OS threads (both fresh for the run, alive until it ends), one
//! thread at a time. A task of the run ends the current phase by setting `request` and waking the
//! waker in `waker_slot`. Execution stays strictly sequential, so the run is as deterministic as
//! it was on one thread - but anything that is tied to the calling thread (`thread_local!` state)
//! now sees what a work-stealing runtime does to tasks all the time.

use std::{
    future::Future,
    pin::Pin,
    sync::{
        atomic::{AtomicBool, Ordering},
        Condvar, Mutex,
    },
    task::{Poll, Waker},
};

/// `block_on(f)` must drive `f` on the run's (single-threaded) executor from the calling thread.
/// `enter` / `leave` run on the helper thread around every phase (e.g. to hand thread-local harness
/// state over). Returns the future's output and the number of phases.
pub fn run_alternating<T: Send>(
    fut: Pin<Box<dyn Future<Output = T> + Send + '_>>,
    block_on: &(dyn Fn(Pin<&mut (dyn Future<Output = Option<T>> + '_)>) -> Option<T> + Sync),
    request: &AtomicBool,
    waker_slot: &Mutex<Option<Waker>>,
    enter: &(dyn Fn() + Sync),
    leave: &(dyn Fn() + Sync),
) -> (T, u64) {
    struct Turn<T> {
        who: usize,
        result: Option<T>,
        phases: u64,
    }
    let fut = Mutex::new(fut);
    let turn = Mutex::new(Turn { who: 0, result: None, phases: 0 });
    let cv = Condvar::new();
    std::thread::scope(|s| {
        for me in 0..2usize {
            let (fut, turn, cv) = (&fut, &turn, &cv);
            let _ = s.spawn(move || loop {
                {
                    let mut g = turn.lock().unwrap();
                    while g.who != me && g.result.is_none() {
                        g = cv.wait(g).unwrap();
                    }
                    if g.result.is_some() {
                        return;
                    }
                }
                enter();
                let r = {
                    let mut f = fut.lock().unwrap();
                    let phase = std::pin::pin!(std::future::poll_fn(|cx| {
                        *waker_slot.lock().unwrap() = Some(cx.waker().clone());
                        match f.as_mut().poll(cx) {
                            Poll::Ready(v) => Poll::Ready(Some(v)),
                            Poll::Pending => {
                                if request.swap(false, Ordering::SeqCst) {
                                    Poll::Ready(None)
                                } else {
                                    Poll::Pending
                                }
                            }
                        }
                    }));
                    block_on(phase)
                };
                leave();
                let mut g = turn.lock().unwrap();
                g.phases += 1;
                match r {
                    Some(v) => g.result = Some(v),
                    None => g.who = 1 - me,
                }
                cv.notify_all();
                if g.result.is_some() {
                    return;
                }
            });
        }
    });
    let g = turn.into_inner().unwrap();
    (g.result.expect("run finished"), g.phases)
}
