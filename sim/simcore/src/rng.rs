//! The one PRNG of the simulator (splitmix64 seeding an xoshiro256**).
//! Nothing else in the simulator produces randomness.

#[derive(Clone, Debug)]
pub struct Rng {
    s: [u64; 4],
}

pub fn splitmix(x: &mut u64) -> u64 {
    *x = x.wrapping_add(0x9E37_79B9_7F4A_7C15);
    let mut z = *x;
    z = (z ^ (z >> 30)).wrapping_mul(0xBF58_476D_1CE4_E5B9);
    z = (z ^ (z >> 27)).wrapping_mul(0x94D0_49BB_1331_11EB);
    z ^ (z >> 31)
}

/// Mixes several integers into one run seed.
pub fn mix(parts: &[u64]) -> u64 {
    let mut h = 0x243F_6A88_85A3_08D3u64;
    for p in parts {
        h ^= *p;
        let mut x = h;
        h = splitmix(&mut x);
    }
    h
}

impl Rng {
    pub fn new(seed: u64) -> Self {
        let mut x = seed;
        let s = [
            splitmix(&mut x),
            splitmix(&mut x),
            splitmix(&mut x),
            splitmix(&mut x),
        ];
        Rng { s }
    }
    pub fn next(&mut self) -> u64 {
        let r = self.s[1].wrapping_mul(5).rotate_left(7).wrapping_mul(9);
        let t = self.s[1] << 17;
        self.s[2] ^= self.s[0];
        self.s[3] ^= self.s[1];
        self.s[1] ^= self.s[2];
        self.s[0] ^= self.s[3];
        self.s[2] ^= t;
        self.s[3] = self.s[3].rotate_left(45);
        r
    }
    /// Uniform in 0..n (n > 0).
    pub fn below(&mut self, n: usize) -> usize {
        debug_assert!(n > 0);
        ((self.next() >> 11) % (n as u64)) as usize
    }
    /// Uniform in lo..=hi.
    pub fn range(&mut self, lo: usize, hi: usize) -> usize {
        lo + self.below(hi - lo + 1)
    }
    /// True with probability p/1000.
    pub fn permille(&mut self, p: u32) -> bool {
        (self.below(1000) as u32) < p
    }
    pub fn coin(&mut self) -> bool {
        self.next() & (1 << 40) != 0
    }
    pub fn pick<'a, T>(&mut self, xs: &'a [T]) -> &'a T {
        &xs[self.below(xs.len())]
    }
    /// Picks an index according to integer weights.
    pub fn weighted(&mut self, weights: &[u32]) -> usize {
        let total: u64 = weights.iter().map(|w| *w as u64).sum();
        debug_assert!(total > 0);
        let mut x = (self.next() >> 11) % total;
        for (i, w) in weights.iter().enumerate() {
            if x < *w as u64 {
                return i;
            }
            x -= *w as u64;
        }
        weights.len() - 1
    }
}

/// FNV-1a style running hash used for event logs.
#[derive(Clone, Copy, Debug)]
pub struct Hasher(pub u64);

impl Default for Hasher {
    fn default() -> Self {
        Hasher(0xcbf2_9ce4_8422_2325)
    }
}

impl Hasher {
    pub fn u64(&mut self, v: u64) {
        for i in 0..8 {
            self.0 ^= (v >> (i * 8)) & 0xff;
            self.0 = self.0.wrapping_mul(0x0000_0100_0000_01B3);
        }
    }
    pub fn str(&mut self, s: &str) {
        for b in s.as_bytes() {
            self.0 ^= *b as u64;
            self.0 = self.0.wrapping_mul(0x0000_0100_0000_01B3);
        }
        self.u64(s.len() as u64);
    }
}
