#!/bin/bash
# Determinism across processes: every (property, seed) is self-checked in two separate processes
# (each of which already runs every seed 4 times on 16 resp. 5 workers) and the digests over all
# event-log hashes must be identical. Usage: tools/determinism.sh [runs] [seeds]
V="$(cd "$(dirname "$0")/.." && pwd)"; RUNS="${1:-2000}"; NSEEDS="${2:-3}"
bad=0; n=0
for id in C01 C02 C03 C04 C05 C06 C07 C08 C09 C10 C11 C12 C13 C14; do
  for s in $(seq 1 "$NSEEDS"); do
    a="$(VERIF_SEED=$s "$V/target/release/dsim" selfcheck $id --runs "$RUNS" | grep digest)"
    b="$(VERIF_SEED=$s "$V/target/release/dsim" selfcheck $id --runs "$RUNS" | grep digest)"
    n=$((n+1))
    if [ -z "$a" ] || [ "$a" != "$b" ]; then echo "DIFFERS $id seed $s: [$a] vs [$b]"; bad=$((bad+1)); fi
  done
done
echo "determinism: $n (property, seed) pairs x 2 processes x $RUNS seeds x 4 executions, $bad differing"
[ "$bad" = 0 ]
