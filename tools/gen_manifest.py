#!/usr/bin/env python3
"""Regenerates /verif/MANIFEST.json (kept in one place so that it stays consistent)."""
import json, os
V = os.path.dirname(os.path.dirname(os.path.abspath(__file__)))
hooks = ["a3da739", "851a7e6", "5d948ff", "577277c", "3d14048", "62eb807", "4368ae8", "ed2eb1c", "28dddd9", "2a22471", "b6551bd", "1e1af55"]

def chk(pid, text, note, tech, eng="dsim", level="exploration"):
    return {
        "property_id": pid,
        "quick_cmd": f"bin/check {pid} --tier quick",
        "thorough_cmd": f"bin/check {pid} --tier thorough",
        "evidence_file": f"/verif/evidence/{pid}.json",
        "replay_cmd_template": f"bin/check {pid} --replay {{path}}",
        "engine": eng,
        "level_claimed": {"category": level, "text": text, "design_ref": f"DESIGN.md 4/{pid}"},
        "level_note": note,
        "technique": tech,
    }

note_m = ("Sequentially consistent interleavings preempting at every lock / semaphore operation of the pools (cfg-gated shim "
          "types), at the guarded schedule points and at awaits; scripted Manager/hooks; bounded seeded sampling "
          "(actors<=4/6, ops<=6/10 per actor, max_size<=4/6, hooks<=2/3 per kind).")
tech = ("deterministic simulation: coroutine virtual threads under a seeded scheduler, paused tokio clock, per-call fault "
        "injection, ledger oracles after every step, shrunk replay files")
note_n = ("Single-threaded FIFO task schedule (current_thread tokio, paused clock); scripted server replaces the real one; "
          "bounded seeded sampling of histories and fault scripts.")
tech_n = ("deterministic simulation: real client/driver code over in-memory duplex transport against a scripted "
          "fault-injecting server, reference-model oracles after every op, shrunk replay files")
T = {
 "C01": "Seeded search over schedules x fault tables x cancellations; after every simulated step the number of harness-owned objects alive or being created is compared with max_size (ground truth independent of the pool's counters).",
 "C02": "Seeded search; at every quiescent point blocked callers must be justified by exhausted capacity, get() may only panic with injected payloads, epilogue drains and probes capacity through the public API.",
 "C03": "Exhaustive sub-grid (suspension point x abandonment mode x base state x max_size x queue mode, single task, differential books before/after) plus seeded concurrent runs judged by accounting invariants, quiescence rule and capacity probe; every (point x mode) cell is counted.",
 "C04": "Seeded search over per-call outcome tables; a trace checker parses each get's own call log against attempt* final and the detach/destructor ledger.",
 "C05": "Seeded search over thread-level interleavings of every unmanaged operation; identity-tagged objects with a location ledger (conservation), differential result exactness, quiescence rule, status()/semaphores at rest, capacity probe.",
 "C06": "Seeded search with close() at arbitrary points (thread-level interleavings), oracles on results of gets around close, closed-pool books at every rest point, objects outliving all handles.",
 "C07": "Seeded search over resize sequences interleaved with gets/returns/takes; admission of every create relative to live-object ground truth and the resize log, differential capacity after resize, quiescence rule, final capacity probe.",
 "C08": "Seeded search; reference idle queue ordered by the harness (membership via visitor), every call attributed to the operation that made it, runtime task count.",
 "C09": "Seeded search with arbitrary/stateful predicates; retain/take differentials, detach ledger over every object the pool lets go of.",
 "C10": "Configuration sub-grid (pool-level x per-call timeouts x runtime x pool state) plus seeded races on the virtual clock (deadline vs slot/create/recycle completion, both orders and ties) for the managed pool and the unmanaged pool's single timeout.",
 "C11": "Seeded search; status() sampled after every step for plausibility and compared exactly with the ledger at rest points and at the end.",
 "C12": "Seeded search over thread-level interleavings of close() with every unmanaged operation in every phase; any panic is a violation; finality and emptiness judged after close() returned.",
 "C13": "Seeded search; metrics seen by hooks/recycle/retain and Object::metrics() compared with the harness's own hand-out count per object.",
 "C14": "Seeded search with a simulated blocking pool (each spawn_blocking job is a worker virtual thread); creation, interact closures and destructors are stamped with the thread they ran on and ordered by a global sequence; cancellation before/while/after the closure runs.",
 "C16": "Seeded search over histories of pool/cache/registry operations and server fault scripts against a wire-level scripted PostgreSQL server; reference model of connections and cache keys.",
 "C17": "Seeded search over histories and recycle reply scripts against a scripted RESP server; server-side command log judged at every hand-out; Connection::take mirrored against Object::take.",
}
checks = []
for pid in ["C01", "C02", "C03", "C04", "C05", "C06", "C07", "C08", "C09", "C10", "C11", "C12", "C13", "C14"]:
    checks.append(chk(pid, T[pid], note_m, tech, level="fault_enumeration" if pid == "C03" else "exploration"))
checks.append(chk("C16", T["C16"], note_n, tech_n, eng="netsim-pg"))
checks.append(chk("C17", T["C17"], note_n, tech_n, eng="netsim-redis"))
if os.path.isdir(os.path.join(V, "sim", "dsim-backends")):
    checks.insert(14, chk("C15", "Seeded search over histories of gets, interactions (ok / panic / cancelled / leaving the connection broken) and returns on real deadpool-sqlite, deadpool-r2d2 (scripted ManageConnection) and deadpool-diesel (SQLite) pools running on the simulated blocking pool; identity marker read at every hand-out against a dead set.", note_m, tech, eng="dsim-backends"))
claimed = {c["property_id"] for c in checks}
na = []
for i in range(1, 20):
    pid = f"C{i:02d}"
    if pid in claimed:
        continue
    if pid in ("C18", "C19"):
        na.append({"property_id": pid, "reason": "pure function of its configuration input: no schedule, clock, I/O, fault or interleaving for a simulator to own (DESIGN.md 5)"})
    else:
        na.append({"property_id": pid, "reason": "check not integrated yet in this revision (see DESIGN.md 4)"})
engines = [
 {"name": "dsim", "path": "/verif/sim/dsim", "serves_properties": [c["property_id"] for c in checks if c["engine"] == "dsim"], "kind_free_text": "E1: one OS thread per run, corosensei coroutines as virtual threads, seeded controller owning scheduling, virtual time (tokio paused clock), gates, cancellation, spurious polls, simulated blocking pool"},
 {"name": "netsim-pg", "path": "/verif/sim/netsim-pg", "serves_properties": ["C16"], "kind_free_text": "E2: current_thread tokio with paused clock, duplex transport, scripted PostgreSQL server with fault script; plus a thread-level half on the E1 engine (coroutines + seeded controller) for the statement cache and the cache registry"},
 {"name": "netsim-redis", "path": "/verif/sim/netsim-redis", "serves_properties": ["C17"], "kind_free_text": "E2: current_thread tokio with paused clock, duplex transport via guarded connector seam, scripted RESP server"},
]
if "C15" in claimed:
    engines.insert(1, {"name": "dsim-backends", "path": "/verif/sim/dsim-backends", "serves_properties": ["C15"], "kind_free_text": "E1 engine with real rusqlite / diesel-sqlite connections and a scripted r2d2 ManageConnection on the simulated blocking pool"})
m = {
 "version": 1,
 "setup_cmd": "cd /verif/sim && CARGO_NET_OFFLINE=true cargo build --release --offline",
 "hooks": {
   "guard": "--cfg deadpool_verif",
   "enable": "RUSTFLAGS=\"--cfg deadpool_verif\" (set in /verif/sim/.cargo/config.toml; the sim crates depend on /repo by path)",
   "baseline_off_cmd": "cd /repo && cargo test --workspace --no-fail-fast --offline",
   "source_commits": hooks,
   "add_only": False,
 },
 "engines": engines,
 "checks": checks,
 "not_applicable": na,
 "notes": ("See DESIGN.md. Exit 2 = harness error (build failure, nondeterministic replay). All hook commits only add lines "
           "under #[cfg(deadpool_verif)], except ed2eb1c, 28dddd9, 2a22471, b6551bd and 1e1af55, which split the imports of Mutex, Semaphore, Instant, AtomicUsize, AtomicIsize (pools), Arc (deadpool-sync) and Mutex, RwLock (deadpool-postgres statement cache) off their use lists "
           "and make them cfg-selected (shim types under the guard, the same std/tokio types without it) - hence add_only=false. "
           "Known findings: /verif/known_findings.json (all entries fixed by 'fix:' commits in /repo)."),
}
json.dump(m, open(os.path.join(V, "MANIFEST.json"), "w"), indent=1)
print("claimed:", sorted(claimed))
