#!/bin/bash
# Re-runs the check that reported each independently seeded change (seeded/<id>/meta.json:
# check.caught_by) against that change, in scratch copies, and lists the ones that are no longer
# reported. Usage: tools/rerun_seeded.sh [streams] [secs] [id-prefix]   (default 3 streams, 20 s)
V="$(cd "$(dirname "$0")/.." && pwd)"; N="${1:-3}"; SECS="${2:-20}"; PFX="${3:-}"
OUT="$V/seeded/RERUN.md"; TMP="$(mktemp -d /work/rerun.XXXX)"
ls -d "$V"/seeded/${PFX}*/ | while read d; do
  id="$(basename "$d")"
  [ -f "$d/meta.json" ] || continue
  by="$(python3 -c "import json;m=json.load(open('$d/meta.json'));c=m['check'];print(c.get('caught_by') or (m['property'] if c.get('caught') else ''))")"
  [ -n "$by" ] && echo "$id $by"
done > "$TMP/jobs.all"
if [ "${4:-}" = "--missing" ] && [ -f "$OUT" ]; then
  grep -o '^| [^ ]* ' "$OUT" | awk '{print $2}' > "$TMP/done"
  grep -v -w -F -f "$TMP/done" "$TMP/jobs.all" > "$TMP/jobs"
  grep '^| [a-zA-Z0-9_]* | C' "$OUT" | sed 's/^| //; s/ | / /; s/ | / /; s/ | / /; s/ |$//' > "$TMP/res.0"
else
  cp "$TMP/jobs.all" "$TMP/jobs"
fi
stream() {
  k=$1; i=0
  while read id by; do
    i=$((i+1)); [ $((i % N)) -eq $((k % N)) ] || continue
    o="$(VERIF_SCRATCH=/work/rr$k "$V/bin/mutant" "$by" "$V/seeded/$id/patch.diff" --secs "$SECS" 2>&1 </dev/null)"
    rc="$(echo "$o" | grep -a 'mutant verdict' | sed 's/.*exit //')"
    cl="$(echo "$o" | grep -a '^violation:' | head -1 | cut -c1-160)"
    echo "$id $by ${rc:-?} $cl" >> "$TMP/res.$k"
    # harvest: the minimised scenario that exposed the change becomes a regression seed
    # (VERIF_HARVEST=<dir>): it holds on the unchanged tree and is run first by every check
    if [ -n "${VERIF_HARVEST:-}" ] && [ "${rc:-}" = 1 ]; then
      f="$(ls /work/rr$k/out/replays/$by-*.json 2>/dev/null | grep -v -e sequence -e '\.found\.' | head -1)"
      if [ -n "$f" ] && ! grep -q '"abort": *true' "$f" && ! grep -q '"sequence": *{' "$f"; then
        mkdir -p "$VERIF_HARVEST/$by"; cp "$f" "$VERIF_HARVEST/$by/seeded_$id.json"
      fi
    fi
  done < "$TMP/jobs"
  VERIF_SCRATCH=/work/rr$k "$V/bin/mutant" --clean >/dev/null 2>&1
}
for k in $(seq 1 "$N"); do stream $k & done; wait
cat "$TMP"/res.* | sort > "$TMP/all"
{
  echo "# Re-run of the seeded changes against the current checks"
  echo
  echo "$(grep -c ' 1 ' "$TMP/all") of $(wc -l < "$TMP/all") reported again (exit 1 with a VIOLATION line)."
  echo
  echo "| change | check | exit | first violation line |"
  echo "|---|---|---|---|"
  while read id by rc cl; do echo "| $id | $by | $rc | $cl |"; done < "$TMP/all"
} > "$OUT"
grep -v ' 1 ' "$TMP/all" | sed 's/^/NOT REPORTED: /'
rm -rf "$TMP"
