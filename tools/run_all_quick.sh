#!/bin/bash
# Runs every registered quick check on the current tree and validates manifest + evidence files.
V="$(cd "$(dirname "$0")/.." && pwd)"; cd "$V"
rc=0
for id in $(python3 -c "import json;print(' '.join(c['property_id'] for c in json.load(open('MANIFEST.json'))['checks']))"); do
  out="$(bin/check $id --tier quick 2>&1)"; code=$?
  echo "$out" | tail -1
  if [ $code -ne 0 ]; then echo "  -> exit $code"; echo "$out" | grep -E "VIOLATION|violation|error" | head -3; rc=1; fi
done
python3-vt - <<'P' || rc=1
import json, jsonschema, glob
jsonschema.validate(json.load(open('/verif/MANIFEST.json')), json.load(open('/root/.vp/MANIFEST.schema.json')))
s = json.load(open('/root/.vp/EVIDENCE.schema.json'))
m = json.load(open('/verif/MANIFEST.json'))
for c in m['checks']:
    e = json.load(open(c['evidence_file'])); jsonschema.validate(e, s)
    assert e['property_id'] == c['property_id'] and e['level'] == c['level_claimed']['category'], c['property_id']
print("manifest and", len(m['checks']), "evidence files valid")
P
exit $rc
