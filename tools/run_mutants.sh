#!/bin/bash
# Runs every own mutant against the check of the property named by its file prefix (c07_x.patch -> C07)
# and writes /verif/mutants/RESULTS.md. Usage: tools/run_mutants.sh [secs]
V="$(cd "$(dirname "$0")/.." && pwd)"
SECS="${1:-12}"
OUT="$V/mutants/RESULTS.md"
{
echo "# Own mutants vs checks"
echo
echo "Each patch compiles and passes the existing tests; \`bin/mutant <ID> <patch> --secs $SECS\` on $(date -u +%F) against /repo $(git -C /repo rev-parse --short HEAD)."
echo
echo "| mutant | property | verdict | failing clause | minimised scenario |"
echo "|---|---|---|---|---|"
} > "$OUT"
for f in "$V"/mutants/*.patch; do
  n="$(basename "$f" .patch)"
  id="C${n:1:2}"
  log="$("$V/bin/mutant" "$id" "$f" --secs "$SECS" 2>&1)"
  rc=$?
  clause="$(echo "$log" | grep -m1 '^violation:' | sed 's/^violation: //' | cut -d']' -f1)]"
  shape="$(echo "$log" | grep -m1 'shape:' | sed 's/.*shape: //' | cut -c1-140)"
  case $rc in 1) v=caught ;; 0) v=MISSED ;; *) v="error($rc)" ;; esac
  [ "$rc" = 1 ] || clause=""
  echo "| $n | $id | $v | ${clause//|/\\|} | ${shape//|/\\|} |" >> "$OUT"
done
echo >> "$OUT"
echo "$(grep -c '| caught |' "$OUT") caught of $(ls "$V"/mutants/*.patch | wc -l)." >> "$OUT"
