#!/usr/bin/env python3
"""Writes /verif/seeded/SUMMARY.md from the meta.json files of the confirmed seeded changes."""
import json, os, glob
V = os.path.dirname(os.path.dirname(os.path.abspath(__file__)))
rows = []
for m in sorted(glob.glob(os.path.join(V, "seeded", "*", "meta.json"))):
    d = json.load(open(m))
    name = os.path.basename(os.path.dirname(m))
    viol = ""
    for l in d["check"].get("violation", []):
        if l.startswith("violation:"):
            viol = l[len("violation: "):].split("] ")[0] + "]"
    shape = ""
    for l in d["check"].get("violation", []):
        if "shape:" in l:
            shape = l.split("shape:")[1].strip()
    readme = os.path.join(os.path.dirname(m), "README.md")
    what = ""
    if os.path.exists(readme):
        for line in open(readme):
            line = line.strip()
            if line and not line.startswith("#"):
                what = line[:220]
                break
    rows.append((name, d["property"], "caught" if d["check"]["caught"] else "MISSED", viol, shape[:160], what))
out = ["# Independently seeded changes", "",
       "Each change was written by a fresh sub-agent that saw only the property text and its own scratch worktree of /repo,",
       "confirmed by `bin/seedcheck` (demonstration passes without the change and fails with it; the existing suite passes with it),",
       "and then the property's check was run against it with `bin/mutant <ID> seeded/<id>/patch.diff --secs 20`.", "",
       "| id | property | check | failing clause | minimised scenario | change (first line of its README) |", "|---|---|---|---|---|---|"]
for r in rows:
    out.append("| " + " | ".join(x.replace("|", "\\|") for x in r) + " |")
caught = sum(1 for r in rows if r[2] == "caught")
out += ["", f"{caught} of {len(rows)} caught."]
open(os.path.join(V, "seeded", "SUMMARY.md"), "w").write("\n".join(out) + "\n")
print(f"{caught}/{len(rows)} caught")
