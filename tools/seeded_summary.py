#!/usr/bin/env python3
"""Writes /verif/seeded/SUMMARY.md from the meta.json files of the confirmed seeded changes."""
import json, os, glob
V = os.path.dirname(os.path.dirname(os.path.abspath(__file__)))
rows = []
for m in sorted(glob.glob(os.path.join(V, "seeded", "*", "meta.json"))):
    d = json.load(open(m))
    name = os.path.basename(os.path.dirname(m))
    viol = ""
    for l in d["check"].get("violation", []):
        if l.startswith("violation:"):
            viol = l[len("violation: "):].split("] ")[0] + "]"
    shape = ""
    for l in d["check"].get("violation", []):
        if "shape:" in l:
            shape = l.split("shape:")[1].strip()
    readme = os.path.join(os.path.dirname(m), "README.md")
    what = ""
    if os.path.exists(readme):
        for line in open(readme):
            line = line.strip()
            if line and not line.startswith("#"):
                what = line[:220]
                break
    by = d["check"].get("caught_by") or d["property"]
    verdict = "caught" if d["check"]["caught"] else "MISSED"
    if d["check"]["caught"] and by != d["property"]:
        verdict = f"caught by {by}"
    rows.append((name, d["property"], verdict, viol, shape[:160], what))
out = ["# Independently seeded changes", "",
       "Each change was written by a fresh sub-agent that saw only the property text and its own scratch worktree of /repo,",
       "confirmed by `bin/seedcheck` (demonstration passes without the change and fails with it; the existing suite passes with it),",
       "and then the property's check was run against it with `bin/mutant <ID> seeded/<id>/patch.diff --secs 20`.", "",
       "| id | property | check | failing clause | minimised scenario | change (first line of its README) |", "|---|---|---|---|---|---|"]
for r in rows:
    out.append("| " + " | ".join(x.replace("|", "\\|") for x in r) + " |")
caught = sum(1 for r in rows if r[2].startswith("caught"))
out += ["", f"{caught} of {len(rows)} caught.", "",
        "\"caught by Cxx\": the change only manifests through operations that lie outside the scope of the property it was aimed at",
        "(e.g. resize for C01, whose statement is about a pool whose max_size is not being changed); the check of the property that owns",
        "those operations reports it.", "",
        "Not kept: r2_C12_3 (the existing suite fails with the change applied).",
        "Missed: r2_C05_3 - `Object::take` adds the slot permit before decrementing `size`, so `status().size` can exceed `max_size` while one thread",
        "is inside `take()`. No object is lost or duplicated, the pool never physically holds more than max_size objects and status() is exact at rest,",
        "which is all C05 states; the transient counter value is not judged by any clause."]
open(os.path.join(V, "seeded", "SUMMARY.md"), "w").write("\n".join(out) + "\n")
print(f"{caught}/{len(rows)} caught")
